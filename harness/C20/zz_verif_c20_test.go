//go:build verif

package nodeslo

// C20 correspondence harness: node SLO settings are layered default < cluster < first matching
// node override, over sequences of ConfigMap events.
//
// The harness is generic over the Go strategy types: a schema is derived by reflection from
// slov1alpha1.{ResourceThreshold,ResourceQOS,CPUBurst,System}Strategy and []HostApplicationSpec,
// abstract configuration trees (wire format of coq/C20/Model.v [enc]) are generated from the
// schema, rendered to ConfigMap JSON text, fed to the REAL event handler
// (SLOCfgHandlerForConfigMapEvent.Create/Update/Delete/IsCfgAvailable), and after every event the
// REAL NodeSLOReconciler.Reconcile runs for every probe node on a fake client (it creates / updates
// the NodeSLO objects itself); the observable is the DELIVERED NodeSLO.Spec read back from the
// client and flattened by reflection.
//
// Besides ConfigMap events the history contains controller restarts (a new handler and reconciler on
// the same API objects), Node events (created, relabelled, re-annotated with
// node.koordinator.sh/network-bandwidth, deleted) and third-party deletes / overwrites of NodeSLO
// objects. Section texts are rendered with optional characters before / after the JSON document.
//
// input  = nsecs (merge? bwidx default-tree)*  nnodes node*  nops op*   (see coq/C20/Codec.v)

import (
	"bytes"
	"context"
	"encoding/json"
	"fmt"
	"io"
	"math/rand"
	"reflect"
	"sort"
	"strconv"
	"strings"
	"testing"

	corev1 "k8s.io/api/core/v1"
	"k8s.io/apimachinery/pkg/api/resource"
	metav1 "k8s.io/apimachinery/pkg/apis/meta/v1"
	"k8s.io/apimachinery/pkg/runtime"
	"k8s.io/apimachinery/pkg/runtime/serializer"
	"k8s.io/apimachinery/pkg/types"
	"k8s.io/apimachinery/pkg/util/intstr"
	k8stesting "k8s.io/client-go/testing"
	"k8s.io/client-go/tools/record"
	"k8s.io/client-go/util/workqueue"
	"k8s.io/klog/v2"
	"sigs.k8s.io/controller-runtime/pkg/client"
	"sigs.k8s.io/controller-runtime/pkg/client/fake"
	"sigs.k8s.io/controller-runtime/pkg/event"
	crhandler "sigs.k8s.io/controller-runtime/pkg/handler"
	"sigs.k8s.io/controller-runtime/pkg/predicate"
	"sigs.k8s.io/controller-runtime/pkg/reconcile"

	"github.com/koordinator-sh/koordinator/apis/configuration"
	"github.com/koordinator-sh/koordinator/apis/extension"
	slov1alpha1 "github.com/koordinator-sh/koordinator/apis/slo/v1alpha1"
	"github.com/koordinator-sh/koordinator/pkg/slo-controller/nodemetric"
	"github.com/koordinator-sh/koordinator/pkg/util/sloconfig"
)

// ---------------------------------------------------------------- schema by reflection

type vtC20Kind int

const (
	vtC20Leaf vtC20Kind = iota
	vtC20Obj
	vtC20Arr
	vtC20Map
)

type vtC20Scalar int

const (
	vtC20Int vtC20Scalar = iota
	vtC20Bool
	vtC20String
	vtC20IntStr
	vtC20Quantity
)

type vtC20Schema struct {
	kind   vtC20Kind
	name   string // json field name
	req    bool   // scalar the Go type always marshals
	scalar vtC20Scalar
	bits   int
	ptr    bool
	index  []int // reflect.FieldByIndex path inside the enclosing struct
	fields []*vtC20Schema
	elem   *vtC20Schema
}

var (
	vtC20QuantityT = reflect.TypeOf(resource.Quantity{})
	vtC20IntStrT   = reflect.TypeOf(intstr.IntOrString{})
)

func vtC20SchemaOf(t reflect.Type, name string) *vtC20Schema {
	s := &vtC20Schema{name: name}
	if t == vtC20QuantityT {
		s.kind, s.scalar, s.req = vtC20Leaf, vtC20Quantity, true
		return s
	}
	if t.Kind() == reflect.Ptr {
		s.ptr = true
		e := t.Elem()
		if e == vtC20IntStrT {
			s.kind, s.scalar = vtC20Leaf, vtC20IntStr
			return s
		}
		switch e.Kind() {
		case reflect.Int64, reflect.Int32, reflect.Int:
			s.kind, s.scalar, s.bits = vtC20Leaf, vtC20Int, e.Bits()
		case reflect.Bool:
			s.kind, s.scalar = vtC20Leaf, vtC20Bool
		case reflect.String:
			s.kind, s.scalar = vtC20Leaf, vtC20String
		case reflect.Struct:
			s.kind = vtC20Obj
			s.fields = vtC20Fields(e, nil)
		default:
			panic("verif C20: unsupported pointer type " + t.String())
		}
		return s
	}
	switch t.Kind() {
	case reflect.String:
		s.kind, s.scalar = vtC20Leaf, vtC20String
	case reflect.Struct:
		s.kind = vtC20Obj
		s.fields = vtC20Fields(t, nil)
	case reflect.Slice:
		s.kind = vtC20Arr
		s.elem = vtC20SchemaOf(t.Elem(), "")
		if s.elem.kind != vtC20Obj {
			panic("verif C20: unsupported slice element " + t.String())
		}
	case reflect.Map:
		if t.Key().Kind() != reflect.String || t.Elem().Kind() != reflect.Bool {
			panic("verif C20: unsupported map type " + t.String())
		}
		s.kind = vtC20Map
	default:
		panic("verif C20: unsupported type " + t.String())
	}
	return s
}

// fields of a struct the way encoding/json sees them: embedded structs without a name are inlined
func vtC20Fields(st reflect.Type, prefix []int) []*vtC20Schema {
	var out []*vtC20Schema
	for i := 0; i < st.NumField(); i++ {
		f := st.Field(i)
		tag := f.Tag.Get("json")
		if tag == "-" {
			continue
		}
		name := strings.Split(tag, ",")[0]
		idx := append(append([]int{}, prefix...), i)
		if f.Anonymous && name == "" && f.Type.Kind() == reflect.Struct {
			out = append(out, vtC20Fields(f.Type, idx)...)
			continue
		}
		if name == "" {
			name = f.Name
		}
		c := vtC20SchemaOf(f.Type, name)
		c.index = idx
		out = append(out, c)
	}
	return out
}

type vtC20Section struct {
	key      string // key in ConfigMap.Data
	clusterK string // json key of the cluster-wide value
	nodesK   string // json key of the node entries
	merge    bool
	sch      *vtC20Schema
}

var vtC20Sections = []vtC20Section{
	{configuration.ResourceThresholdConfigKey, "clusterStrategy", "nodeStrategies", true, vtC20SchemaOf(reflect.TypeOf(&slov1alpha1.ResourceThresholdStrategy{}), "")},
	{configuration.ResourceQOSConfigKey, "clusterStrategy", "nodeStrategies", true, vtC20SchemaOf(reflect.TypeOf(&slov1alpha1.ResourceQOSStrategy{}), "")},
	{configuration.CPUBurstConfigKey, "clusterStrategy", "nodeStrategies", true, vtC20SchemaOf(reflect.TypeOf(&slov1alpha1.CPUBurstStrategy{}), "")},
	{configuration.SystemConfigKey, "clusterStrategy", "nodeStrategies", true, vtC20SchemaOf(reflect.TypeOf(&slov1alpha1.SystemStrategy{}), "")},
	{configuration.HostApplicationConfigKey, "applications", "nodeConfigs", false, vtC20SchemaOf(reflect.TypeOf([]slov1alpha1.HostApplicationSpec{}), "")},
}

// ---------------------------------------------------------------- leaf values <-> integers

var vtC20Known = []string{"cpuset", "cfsQuota", "evictByRealLimit", "evictByAllocatable", "none",
	"cpuBurstOnly", "cfsQuotaBurstOnly", "auto", "groupIdentity", "coreSched", "tc", "terway-qos",
	"device", "volumegroup", "podvolume"}

func vtC20Str(v int64) string {
	if v < 0 {
		return vtC20Known[-v-1]
	}
	return fmt.Sprintf("s%d", v)
}

func vtC20StrID(s string) int64 {
	if strings.HasPrefix(s, "s") {
		if v, err := strconv.ParseInt(s[1:], 10, 64); err == nil {
			return v
		}
	}
	for i, k := range vtC20Known {
		if k == s {
			return -int64(i) - 1
		}
	}
	panic("verif C20: string outside the harness universe: " + s)
}

// ---------------------------------------------------------------- flatten a real value

func vtC20Flat(s *vtC20Schema, v reflect.Value, out *[]int64) {
	switch s.kind {
	case vtC20Leaf:
		if s.req {
			q := v.Interface().(resource.Quantity)
			*out = append(*out, 7, q.Value())
			return
		}
		if s.ptr {
			if v.IsNil() {
				*out = append(*out, 0)
				return
			}
			v = v.Elem()
		}
		switch s.scalar {
		case vtC20Int:
			*out = append(*out, 1, v.Int())
		case vtC20Bool:
			*out = append(*out, 1, vtB(v.Bool()))
		case vtC20String:
			if !s.ptr && v.String() == "" {
				*out = append(*out, 0)
			} else {
				*out = append(*out, 1, vtC20StrID(v.String()))
			}
		case vtC20IntStr:
			is := v.Interface().(intstr.IntOrString)
			if is.Type == intstr.Int {
				*out = append(*out, 1, 2*int64(is.IntVal))
			} else {
				n, err := strconv.ParseInt(strings.TrimSuffix(is.StrVal, "M"), 10, 64)
				if err != nil {
					panic("verif C20: IntOrString outside the harness universe: " + is.StrVal)
				}
				*out = append(*out, 1, 2*n+1)
			}
		}
	case vtC20Obj:
		if s.ptr {
			if v.IsNil() {
				*out = append(*out, 2)
				return
			}
			v = v.Elem()
		}
		*out = append(*out, 3, int64(len(s.fields)))
		for _, f := range s.fields {
			vtC20Flat(f, v.FieldByIndex(f.index), out)
		}
	case vtC20Arr:
		*out = append(*out, 4, int64(v.Len()))
		for i := 0; i < v.Len(); i++ {
			vtC20Flat(s.elem, v.Index(i), out)
		}
	case vtC20Map:
		keys := make([]string, 0, v.Len())
		for _, k := range v.MapKeys() {
			keys = append(keys, k.String())
		}
		sort.Strings(keys)
		*out = append(*out, 5, int64(len(keys)))
		for _, k := range keys {
			n, err := strconv.ParseInt(strings.TrimPrefix(k, "f"), 10, 64)
			if err != nil {
				panic("verif C20: map key outside the harness universe: " + k)
			}
			*out = append(*out, n, vtB(v.MapIndex(reflect.ValueOf(k)).Bool()))
		}
	}
}

// ---------------------------------------------------------------- render an abstract tree as JSON text

type vtC20Cur struct {
	in []int64
	p  int
}

func (c *vtC20Cur) next() int64 {
	v := c.in[c.p]
	c.p++
	return v
}

const (
	vtC20StyleNulls   = 16  // absent fields are written as explicit null
	vtC20StyleUnknown = 32  // every object gets an unknown extra field
	vtC20StyleCase    = 64  // object keys in another letter case (encoding/json matches keys case-insensitively)
	vtC20StylePretty  = 128 // the document is indented (white space between the tokens)
)

// a quoted JSON object key for a struct field
func vtC20K(name string, style int64) string {
	if style&vtC20StyleCase != 0 {
		if style&1 == 0 {
			name = strings.ToUpper(name[:1]) + name[1:]
		} else {
			name = strings.ToUpper(name)
		}
	}
	return strconv.Quote(name)
}

func vtC20LeafText(s *vtC20Schema, v int64) string {
	switch s.scalar {
	case vtC20Int:
		return strconv.FormatInt(v, 10)
	case vtC20Bool:
		if v != 0 {
			return "true"
		}
		return "false"
	case vtC20String:
		return strconv.Quote(vtC20Str(v))
	case vtC20IntStr:
		if v%2 == 0 {
			return strconv.FormatInt(v/2, 10)
		}
		return strconv.Quote(fmt.Sprintf("%dM", (v-1)/2))
	case vtC20Quantity: // other legal spellings of the same quantity: suffix form, bare JSON number
		switch {
		case v > 0 && v%1000 == 0:
			return strconv.Quote(strconv.FormatInt(v/1000, 10) + "k")
		case v%4 == 1:
			return strconv.FormatInt(v, 10)
		}
		return strconv.Quote(strconv.FormatInt(v, 10))
	}
	panic("verif C20: scalar kind")
}

// members of a JSON object for the fields of [s], consuming "3 n f1..fn" after the tag
func vtC20Members(s *vtC20Schema, c *vtC20Cur, style int64) []string {
	return vtC20MembersX(s, c, style, style&vtC20StyleNulls != 0)
}

// nullsHere: write absent direct members as explicit null (nested objects follow [style])
func vtC20MembersX(s *vtC20Schema, c *vtC20Cur, style int64, nullsHere bool) []string {
	n := int(c.next())
	if n != len(s.fields) {
		panic("verif C20: tree does not fit the schema")
	}
	var ms []string
	for _, f := range s.fields {
		txt, absent := vtC20Render(f, c, style)
		if absent {
			if nullsHere {
				ms = append(ms, vtC20K(f.name, style)+":null")
			}
			continue
		}
		ms = append(ms, vtC20K(f.name, style)+":"+txt)
	}
	if style&vtC20StyleUnknown != 0 {
		ms = append(ms, `"zzUnknown":{"a":[1,"x"]}`)
	}
	return ms
}

func vtC20Render(s *vtC20Schema, c *vtC20Cur, style int64) (string, bool) {
	tag := c.next()
	switch tag {
	case 0, 6, 2:
		return "", true
	case 1, 7:
		return vtC20LeafText(s, c.next()), false
	case 3:
		return "{" + strings.Join(vtC20Members(s, c, style), ",") + "}", false
	case 4:
		n := int(c.next())
		es := make([]string, n)
		for i := 0; i < n; i++ {
			es[i], _ = vtC20Render(s.elem, c, style)
		}
		return "[" + strings.Join(es, ",") + "]", n == 0
	case 5:
		n := int(c.next())
		es := make([]string, n)
		for i := 0; i < n; i++ {
			k, v := c.next(), c.next()
			es[i] = fmt.Sprintf(`"f%03d":%v`, k, v != 0)
		}
		return "{" + strings.Join(es, ",") + "}", n == 0
	}
	panic("verif C20: bad tree tag")
}

func vtC20SkipTree(c *vtC20Cur) {
	switch c.next() {
	case 1, 7:
		c.next()
	case 3, 4:
		n := int(c.next())
		for i := 0; i < n; i++ {
			vtC20SkipTree(c)
		}
	case 5:
		n := int(c.next())
		c.p += 2 * n
	}
}

var vtC20Ops = []string{"", "In", "NotIn", "Exists", "DoesNotExist", "Bogus"}

func vtC20Selector(c *vtC20Cur, style int64) (string, bool) {
	if c.next() == 0 {
		return "", true
	}
	n := int(c.next())
	var ml, me []string
	for i := 0; i < n; i++ {
		key, op, nv := c.next(), c.next(), int(c.next())
		vals := make([]string, nv)
		for j := range vals {
			vals[j] = strconv.Quote(fmt.Sprintf("v%d", c.next()))
		}
		if op == 0 && nv == 1 {
			ml = append(ml, fmt.Sprintf(`"k%d":%s`, key, vals[0]))
			continue
		}
		o := "Bogus"
		if op >= 1 && op <= 4 {
			o = vtC20Ops[op]
		} else if op == 0 {
			o = "In" // matchLabels needs exactly one value; otherwise an (invalid or multi-valued) In
		}
		e := fmt.Sprintf(`{%s:"k%d",%s:%q`, vtC20K("key", style), key, vtC20K("operator", style), o)
		if nv > 0 {
			e += "," + vtC20K("values", style) + ":[" + strings.Join(vals, ",") + "]"
		}
		me = append(me, e+"}")
	}
	var ms []string
	if len(ml) > 0 {
		ms = append(ms, vtC20K("matchLabels", style)+":{"+strings.Join(ml, ",")+"}")
	}
	if len(me) > 0 {
		ms = append(ms, vtC20K("matchExpressions", style)+":["+strings.Join(me, ",")+"]")
	}
	return "{" + strings.Join(ms, ",") + "}", false
}

// text of one section; ok=false when the key is absent from ConfigMap.Data
func vtC20SectionText(sec vtC20Section, c *vtC20Cur) (string, bool) {
	status, style := c.next(), c.next()
	switch status {
	case 0:
		return "", false
	case 1:
		return []string{`{"` + sec.clusterK + `":{`, "", "[1,2]", "not json"}[style%4], true
	}
	lead, trail := vtC20Chars(c), vtC20Chars(c)
	doc, ok := vtC20SectionDoc(sec, c, status, style)
	return vtC20Frame(lead, doc) + doc + vtC20Frame(trail, doc), ok
}

// characters that may surround the JSON document of a section; codes 0..3 are JSON white space
var vtC20FrameChars = []string{" ", "\n", "\t", "\r", "}", "]", ",", "{}", "null", "x", "\v", "\f", "\u00a0", "\ufeff",
	"0", `""`, "// c\n", "<<<<<<< HEAD\n", "" /* 18: a copy of the document */, "[", "{", ":", "\x00"}

func vtC20Chars(c *vtC20Cur) []int64 {
	n := int(c.next())
	out := make([]int64, n)
	for i := range out {
		out[i] = c.next()
	}
	return out
}

func vtC20Frame(codes []int64, doc string) string {
	var sb strings.Builder
	for _, k := range codes {
		if k == 18 {
			sb.WriteString(doc)
		} else {
			sb.WriteString(vtC20FrameChars[k])
		}
	}
	return sb.String()
}

// the JSON document of a section with payload (status 2: with a wrongly typed member, 3: well-typed)
func vtC20SectionDoc(sec vtC20Section, c *vtC20Cur, status, style int64) (string, bool) {
	var ms []string
	variant := int64(-1) // which wrongly typed member a status-2 document gets
	if status == 2 {
		variant = (style % 16) % 7
	}
	clusterTxt, absent := vtC20Render(sec.sch, c, style)
	if variant == 2 {
		clusterTxt, absent = `"oops"`, false
	}
	if !absent {
		ms = append(ms, vtC20K(sec.clusterK, style)+":"+clusterTxt)
	} else if style&vtC20StyleNulls != 0 {
		ms = append(ms, vtC20K(sec.clusterK, style)+":null")
	}
	n := int(c.next())
	var es []string
	for i := 0; i < n; i++ {
		// profile names are unique but NOT in ConfigMap order (precedence is the position, not the name)
		em := []string{fmt.Sprintf(`%s:"n%d"`, vtC20K("name", style), (int64(i)*3+style)%7)}
		selTxt, selNil := vtC20Selector(c, style)
		if !selNil {
			em = append(em, vtC20K("nodeSelector", style)+":"+selTxt)
		} else if style&vtC20StyleNulls != 0 {
			em = append(em, vtC20K("nodeSelector", style)+":null")
		}
		if sec.merge {
			// the strategy is an embedded pointer: its fields are inlined into the entry. Even a
			// null member makes encoding/json allocate the embedded struct, so direct members
			// are never written as null (the model keys on "some member is written").
			if tag := c.next(); tag == 3 {
				em = append(em, vtC20MembersX(sec.sch, c, style, false)...)
			} else if tag != 2 {
				panic("verif C20: node strategy must be an object")
			}
		} else {
			c2 := c
			txt, abs := vtC20Render(sec.sch, c2, style)
			if !abs {
				em = append(em, vtC20K("applications", style)+":"+txt)
			}
		}
		es = append(es, "{"+strings.Join(em, ",")+"}")
	}
	switch variant {
	case 0:
		es = append(es, `{"name":7}`)
	case 1:
		es = append([]string{`{"name":7}`}, es...)
	}
	if len(es) > 0 {
		ms = append(ms, vtC20K(sec.nodesK, style)+":["+strings.Join(es, ",")+"]")
	}
	if variant >= 3 {
		// a second (duplicate) cluster member whose only field has a value of the wrong JSON type or
		// outside the range of the Go type: the text is valid JSON, json.Unmarshal reports a type error
		bad, ok := vtC20BadMember(sec.sch, variant)
		if !ok {
			bad = `"oops"`
		}
		ms = append(ms, strconv.Quote(sec.clusterK)+":"+bad)
	}
	if style&vtC20StyleUnknown != 0 {
		ms = append(ms, `"zzTop":3`)
	}
	doc := "{" + strings.Join(ms, ",") + "}"
	if len(ms) == 0 && style&vtC20StyleNulls != 0 && status == 3 {
		doc = "null"
	}
	if style&vtC20StylePretty != 0 {
		var buf bytes.Buffer
		if err := json.Indent(&buf, []byte(doc), "", "\t"); err != nil {
			panic("verif C20: rendered document is not JSON: " + doc)
		}
		doc = buf.String()
	}
	return doc, true
}

// a value of [s]'s type in which one scalar has a JSON value the Go type cannot take:
// variant 3 a fraction for an integer, 4 an integer beyond the field's range, 5 a string for an
// integer, 6 a number for a bool (or for a string)
func vtC20BadMember(s *vtC20Schema, variant int64) (string, bool) {
	want := func(l *vtC20Schema) (string, bool) {
		switch {
		case variant == 3 && l.scalar == vtC20Int && !l.req:
			return "1.5", true
		case variant == 4 && l.scalar == vtC20Int && !l.req:
			if l.bits == 32 {
				return "2147483648", true
			}
			return "9223372036854775808", true
		case variant == 5 && l.scalar == vtC20Int && !l.req:
			return `"12"`, true
		case variant == 6 && (l.scalar == vtC20Bool || l.scalar == vtC20String) && !l.req:
			return "1", true
		}
		return "", false
	}
	var walk func(s *vtC20Schema) (string, bool)
	walk = func(s *vtC20Schema) (string, bool) {
		switch s.kind {
		case vtC20Leaf:
			return want(s)
		case vtC20Obj:
			for _, f := range s.fields {
				if txt, ok := walk(f); ok {
					return "{" + strconv.Quote(f.name) + ":" + txt + "}", true
				}
			}
		case vtC20Arr:
			if txt, ok := walk(s.elem); ok {
				return "[" + txt + "]", true
			}
		}
		return "", false
	}
	return walk(s)
}

func vtC20ConfigMap(c *vtC20Cur) *corev1.ConfigMap {
	cm := &corev1.ConfigMap{
		ObjectMeta: metav1.ObjectMeta{Name: sloconfig.SLOCtrlConfigMap, Namespace: sloconfig.ConfigNameSpace},
		Data:       map[string]string{},
	}
	n := int(c.next())
	for i := 0; i < n; i++ {
		if txt, ok := vtC20SectionText(vtC20Sections[i], c); ok {
			cm.Data[vtC20Sections[i].key] = txt
		}
	}
	return cm
}

// ---------------------------------------------------------------- exec

// the Node object i of the case (nil = does not exist), consuming "0 | 1 nlabels (k v)* bwkind bwval bwstyle"
func vtC20Node(c *vtC20Cur, i int) *corev1.Node {
	if c.next() == 0 {
		return nil
	}
	nl := int(c.next())
	lbl := map[string]string{}
	for j := 0; j < nl; j++ {
		k, v := c.next(), c.next()
		lbl[fmt.Sprintf("k%d", k)] = fmt.Sprintf("v%d", v)
	}
	node := &corev1.Node{ObjectMeta: metav1.ObjectMeta{Name: fmt.Sprintf("node%02d", i), Labels: lbl}}
	kind, val, style := c.next(), c.next(), c.next()
	switch kind {
	case 1:
		txt := strconv.FormatInt(val, 10)
		switch style % 3 {
		case 1:
			if val > 0 && val%1000 == 0 {
				txt = strconv.FormatInt(val/1000, 10) + "k"
			}
		case 2:
			txt += ".0"
		}
		if q, err := resource.ParseQuantity(txt); err != nil || q.Value() != val {
			panic("verif C20: bandwidth spelling " + txt)
		}
		node.Annotations = map[string]string{extension.AnnotationNodeBandwidth: txt}
	case 2:
		txt := []string{"fast", "", "12 Mbps", "--3", "1Gb", "1e"}[style%6]
		if _, err := resource.ParseQuantity(txt); err == nil {
			panic("verif C20: not a malformed quantity: " + txt)
		}
		node.Annotations = map[string]string{extension.AnnotationNodeBandwidth: txt}
	}
	return node
}

func vtC20Exec(in []int64) []int64 {
	c := &vtC20Cur{in: in}
	nsec := int(c.next())
	for i := 0; i < nsec; i++ {
		c.next()
		c.next()
		vtC20SkipTree(c) // the built-in defaults are the implementation's own business
	}
	nn := int(c.next())
	names := make([]string, nn)
	var objs []client.Object
	for i := 0; i < nn; i++ {
		names[i] = fmt.Sprintf("node%02d", i)
		if node := vtC20Node(c, i); node != nil {
			objs = append(objs, node)
		}
	}

	strict := c.next() != 0

	ctx := context.TODO()
	// a plain object tracker (no managed-fields bookkeeping) over a scheme with the two API groups
	// the controller touches: building the default one costs more than running the whole case
	tracker := k8stesting.NewObjectTracker(vtC20Scheme, vtC20Codecs.UniversalDecoder())
	cl := fake.NewClientBuilder().WithScheme(vtC20Scheme).WithObjectTracker(tracker).WithObjects(objs...).Build()
	q := workqueue.NewTypedRateLimitingQueue[reconcile.Request](workqueue.DefaultTypedControllerRateLimiter[reconcile.Request]())
	defer q.ShutDown()
	// the wiring of SetupWithManager without the manager: ConfigMap events -> the handler,
	// Node events -> nodemetric.EnqueueRequestForNode, NodeSLO events -> For(&NodeSLO{}) with
	// GenerationChangedPredicate
	var handler *SLOCfgHandlerForConfigMapEvent
	var rec *NodeSLOReconciler
	nodeHandler := &nodemetric.EnqueueRequestForNode{Client: cl}
	sloHandler := &crhandler.EnqueueRequestForObject{}
	getNode := func(i int) *corev1.Node {
		node := &corev1.Node{}
		if err := cl.Get(ctx, types.NamespacedName{Name: names[i]}, node); err != nil {
			return nil
		}
		return node
	}
	start := func() { // a controller process starts: fresh handler and reconciler, every existing Node is announced
		handler = NewSLOCfgHandlerForConfigMapEvent(cl, DefaultSLOCfg(), &record.FakeRecorder{})
		rec = &NodeSLOReconciler{Client: cl, sloCfgCache: handler, Scheme: vtC20Scheme, Recorder: &record.FakeRecorder{}}
		for i := range names {
			if node := getNode(i); node != nil {
				nodeHandler.Create(ctx, event.TypedCreateEvent[client.Object]{Object: node}, q)
			}
		}
	}
	handler = NewSLOCfgHandlerForConfigMapEvent(cl, DefaultSLOCfg(), &record.FakeRecorder{})
	rec = &NodeSLOReconciler{Client: cl, sloCfgCache: handler, Scheme: vtC20Scheme, Recorder: &record.FakeRecorder{}}

	// the informer cache (the client) holds the slo-controller ConfigMap the way the API server would
	setInformer := func(cm *corev1.ConfigMap) {
		old := &corev1.ConfigMap{}
		if err := cl.Get(ctx, client.ObjectKey{Namespace: sloconfig.ConfigNameSpace, Name: sloconfig.SLOCtrlConfigMap}, old); err == nil {
			_ = cl.Delete(ctx, old)
		}
		if cm != nil {
			if err := cl.Create(ctx, cm.DeepCopy()); err != nil {
				panic(err)
			}
		}
	}
	// the result of Reconcile (error / requeue) is not what the property is about: what counts is
	// what the node has been delivered afterwards
	reconcileOne := func(req reconcile.Request) {
		_, _ = rec.Reconcile(ctx, req)
	}
	getSLO := func(i int) *slov1alpha1.NodeSLO {
		nodeSLO := &slov1alpha1.NodeSLO{}
		if err := cl.Get(ctx, types.NamespacedName{Name: names[i]}, nodeSLO); err != nil {
			return nil
		}
		return nodeSLO
	}

	var obs []int64
	nops := int(c.next())
	for o := 0; o < nops; o++ {
		kind := c.next()
		var cm *corev1.ConfigMap
		var variant int64
		if kind == 4 {
			variant = c.next()
		}
		if kind <= 5 {
			cm = vtC20ConfigMap(c)
		}
		switch kind {
		case 0:
			setInformer(cm)
			handler.Create(ctx, event.TypedCreateEvent[client.Object]{Object: cm}, q)
		case 1:
			old := cm.DeepCopy()
			old.Data["zz-previous"] = "x"
			setInformer(cm)
			handler.Update(ctx, event.TypedUpdateEvent[client.Object]{ObjectOld: old, ObjectNew: cm}, q)
		case 2:
			setInformer(cm)
			handler.Update(ctx, event.TypedUpdateEvent[client.Object]{ObjectOld: cm.DeepCopy(), ObjectNew: cm}, q)
		case 3:
			setInformer(nil)
			handler.Delete(ctx, event.TypedDeleteEvent[client.Object]{Object: cm}, q)
		case 4: // events the ConfigMap handler must ignore
			other := cm.DeepCopy()
			switch variant % 6 {
			case 0:
				other.Name = "some-other-config"
				handler.Create(ctx, event.TypedCreateEvent[client.Object]{Object: other}, q)
			case 1: // the same name in another namespace
				other.Namespace = "default"
				handler.Create(ctx, event.TypedCreateEvent[client.Object]{Object: other}, q)
			case 2:
				other.Name = sloconfig.SLOCtrlConfigMap + "-canary"
				old := other.DeepCopy()
				old.Data["zz-previous"] = "x"
				handler.Update(ctx, event.TypedUpdateEvent[client.Object]{ObjectOld: old, ObjectNew: other}, q)
			case 3:
				other.Namespace = sloconfig.ConfigNameSpace + "-staging"
				old := other.DeepCopy()
				old.Data["zz-previous"] = "x"
				handler.Update(ctx, event.TypedUpdateEvent[client.Object]{ObjectOld: old, ObjectNew: other}, q)
			case 4:
				handler.Generic(ctx, event.TypedGenericEvent[client.Object]{Object: cm}, q)
			case 5: // an object of another kind with the ConfigMap's name
				sec := &corev1.Secret{ObjectMeta: cm.ObjectMeta}
				handler.Create(ctx, event.TypedCreateEvent[client.Object]{Object: sec}, q)
			}
		case 5:
			setInformer(cm)
			handler.IsCfgAvailable()
		case 6:
			setInformer(nil)
			handler.IsCfgAvailable()
		case 7:
			start()
		case 8:
			i := int(c.next())
			node := vtC20Node(c, i)
			old := getNode(i)
			switch {
			case node == nil && old != nil:
				if err := cl.Delete(ctx, old); err != nil {
					panic(err)
				}
				nodeHandler.Delete(ctx, event.TypedDeleteEvent[client.Object]{Object: old}, q)
			case node != nil && old != nil:
				upd := old.DeepCopy()
				upd.Labels, upd.Annotations = node.Labels, node.Annotations
				if err := cl.Update(ctx, upd); err != nil {
					panic(err)
				}
				nodeHandler.Update(ctx, event.TypedUpdateEvent[client.Object]{ObjectOld: old, ObjectNew: upd}, q)
			case node != nil:
				if err := cl.Create(ctx, node); err != nil {
					panic(err)
				}
				nodeHandler.Create(ctx, event.TypedCreateEvent[client.Object]{Object: node}, q)
			}
		case 9:
			if node := getNode(int(c.next())); node != nil {
				nodeHandler.Create(ctx, event.TypedCreateEvent[client.Object]{Object: node}, q)
			}
		case 10:
			if nodeSLO := getSLO(int(c.next())); nodeSLO != nil {
				if err := cl.Delete(ctx, nodeSLO); err != nil {
					panic(err)
				}
				if (predicate.GenerationChangedPredicate{}).Delete(event.DeleteEvent{Object: nodeSLO}) {
					sloHandler.Delete(ctx, event.DeleteEvent{Object: nodeSLO}, q)
				}
			}
		case 11:
			i, style := int(c.next()), c.next()
			if nodeSLO := getSLO(i); nodeSLO != nil {
				upd := nodeSLO.DeepCopy()
				vtC20Scribble(&upd.Spec, style)
				upd.Generation++ // the API server bumps metadata.generation on a spec change
				if err := cl.Update(ctx, upd); err != nil {
					panic(err)
				}
				ev := event.UpdateEvent{ObjectOld: nodeSLO, ObjectNew: upd}
				if (predicate.GenerationChangedPredicate{}).Update(ev) {
					sloHandler.Update(ctx, ev, q)
				}
			}
		default:
			panic("verif C20: bad op kind")
		}
		// delivery. strict: exactly the requests the handlers put on the work queue are reconciled;
		// otherwise every probe node is (ConfigMap events enqueue all nodes; node events, NodeSLO
		// events and resyncs reconcile nodes at any time). The REAL Reconcile creates / updates /
		// deletes the NodeSLO.
		for q.Len() > 0 {
			req, _ := q.Get()
			if strict {
				reconcileOne(req)
			}
			q.Forget(req)
			q.Done(req)
		}
		if !strict {
			for _, name := range names {
				reconcileOne(reconcile.Request{NamespacedName: types.NamespacedName{Name: name}})
			}
		}
		// the observable is what was DELIVERED: NodeSLO.Spec read back from the API (fake client)
		for i := range names {
			nodeSLO := getSLO(i)
			if nodeSLO == nil {
				obs = append(obs, -888888)
				continue
			}
			spec := &nodeSLO.Spec
			vtC20Flat(vtC20Sections[0].sch, reflect.ValueOf(spec.ResourceUsedThresholdWithBE), &obs)
			vtC20Flat(vtC20Sections[1].sch, reflect.ValueOf(spec.ResourceQOSStrategy), &obs)
			vtC20Flat(vtC20Sections[2].sch, reflect.ValueOf(spec.CPUBurstStrategy), &obs)
			vtC20Flat(vtC20Sections[3].sch, reflect.ValueOf(spec.SystemStrategy), &obs)
			vtC20Flat(vtC20Sections[4].sch, reflect.ValueOf(spec.HostApplications), &obs)
		}
	}
	return obs
}

// what a third party may do to a NodeSLO spec behind the controller's back
func vtC20Scribble(spec *slov1alpha1.NodeSLOSpec, style int64) {
	i64 := func(v int64) *int64 { return &v }
	switch style % 5 {
	case 0:
		spec.CPUBurstStrategy = nil
	case 1:
		if spec.ResourceUsedThresholdWithBE == nil {
			spec.ResourceUsedThresholdWithBE = &slov1alpha1.ResourceThresholdStrategy{}
		}
		spec.ResourceUsedThresholdWithBE.CPUSuppressThresholdPercent = i64(12)
		spec.ResourceUsedThresholdWithBE.MemoryEvictLowerPercent = i64(34)
	case 2:
		*spec = slov1alpha1.NodeSLOSpec{}
	case 3: // only ADDS settings the layering does not give (a comparison that tolerates extra fields misses it)
		if spec.ResourceQOSStrategy == nil {
			spec.ResourceQOSStrategy = &slov1alpha1.ResourceQOSStrategy{}
		}
		if spec.ResourceQOSStrategy.LSRClass == nil {
			spec.ResourceQOSStrategy.LSRClass = &slov1alpha1.ResourceQOS{}
		}
		if spec.ResourceQOSStrategy.LSRClass.CPUQOS == nil {
			spec.ResourceQOSStrategy.LSRClass.CPUQOS = &slov1alpha1.CPUQOSCfg{}
		}
		if spec.ResourceQOSStrategy.LSRClass.CPUQOS.GroupIdentity == nil {
			spec.ResourceQOSStrategy.LSRClass.CPUQOS.GroupIdentity = i64(2)
		}
		if spec.SystemStrategy != nil && spec.SystemStrategy.SchedIdleSaverWmark == nil {
			spec.SystemStrategy.SchedIdleSaverWmark = i64(77)
		}
		spec.HostApplications = append(spec.HostApplications, slov1alpha1.HostApplicationSpec{Name: "s99"})
	case 4:
		spec.SystemStrategy = nil
		spec.HostApplications = nil
	}
}

var vtC20Scheme = func() *runtime.Scheme {
	s := runtime.NewScheme()
	_ = corev1.AddToScheme(s)
	_ = slov1alpha1.AddToScheme(s)
	return s
}()

var vtC20Codecs = serializer.NewCodecFactory(vtC20Scheme)

// ---------------------------------------------------------------- generator

type vtC20GenCfg struct {
	pLeaf, pObj, pArr, pMap, pReq float64
}

func vtC20GenLeaf(s *vtC20Schema, r *rand.Rand, layer int64) int64 {
	switch s.scalar {
	case vtC20Bool:
		return int64(r.Intn(2))
	case vtC20String:
		return layer*10 + int64(r.Intn(3))
	case vtC20IntStr:
		return 2*(layer*100+int64(r.Intn(4))) + int64(r.Intn(2))
	case vtC20Quantity:
		if r.Intn(6) == 0 {
			return 0
		}
		return layer*1000 + int64(r.Intn(4))
	}
	switch r.Intn(12) {
	case 0:
		return 0
	case 1:
		return -1 - int64(r.Intn(30))
	case 2:
		if s.bits == 64 {
			return vtQty(r, int64(1)<<62)
		}
		return []int64{2147483647, -2147483648, 2147483646}[r.Intn(3)] // the ends of an int32 field
	}
	return layer*100 + int64(r.Intn(5))
}

func vtC20GenTree(s *vtC20Schema, r *rand.Rand, g vtC20GenCfg, layer int64, force bool, out *[]int64) {
	switch s.kind {
	case vtC20Leaf:
		if s.req {
			if r.Float64() < g.pReq {
				*out = append(*out, 7, vtC20GenLeaf(s, r, layer))
			} else {
				*out = append(*out, 6)
			}
			return
		}
		if r.Float64() < g.pLeaf {
			*out = append(*out, 1, vtC20GenLeaf(s, r, layer))
		} else {
			*out = append(*out, 0)
		}
	case vtC20Obj:
		if s.ptr && !force && r.Float64() >= g.pObj {
			*out = append(*out, 2)
			return
		}
		*out = append(*out, 3, int64(len(s.fields)))
		for _, f := range s.fields {
			vtC20GenTree(f, r, g, layer, false, out)
		}
	case vtC20Arr:
		n := 0
		if force || r.Float64() < g.pArr {
			n = 1 + r.Intn(3)
		}
		*out = append(*out, 4, int64(n))
		for i := 0; i < n; i++ {
			vtC20GenTree(s.elem, r, g, layer, true, out)
		}
	case vtC20Map:
		var keys []int
		if r.Float64() < g.pMap {
			for k := 0; k < 5; k++ {
				if r.Intn(2) == 0 {
					keys = append(keys, k)
				}
			}
		}
		*out = append(*out, 5, int64(len(keys)))
		for _, k := range keys {
			*out = append(*out, int64(k), int64(r.Intn(2)))
		}
	}
}

func vtC20GenSelector(r *rand.Rand, out *[]int64) {
	switch r.Intn(10) {
	case 0:
		*out = append(*out, 0) // nil selector: selects nothing
		return
	case 1:
		*out = append(*out, 1, 0) // empty selector: selects everything
		return
	}
	n := 1 + r.Intn(2)
	*out = append(*out, 1, int64(n))
	used := map[int]bool{}
	for i := 0; i < n; i++ {
		key := r.Intn(3)
		op := []int{0, 0, 0, 1, 1, 2, 3, 4, 5}[r.Intn(9)]
		if op == 0 && used[key] {
			op = 3
		}
		if op == 0 {
			used[key] = true
		}
		nv := 0
		switch op {
		case 0:
			nv = 1
		case 1, 2:
			nv = 1 + r.Intn(2)
			if r.Intn(12) == 0 {
				nv = 0 // invalid: empty value set
			}
		case 3, 4:
			if r.Intn(12) == 0 {
				nv = 1 // invalid: values with Exists / DoesNotExist
			}
		case 5:
			nv = r.Intn(2)
		}
		*out = append(*out, int64(key), int64(op), int64(nv))
		for j := 0; j < nv; j++ {
			*out = append(*out, int64(r.Intn(3)))
		}
	}
}

func vtC20GenCM(r *rand.Rand, g vtC20GenCfg, style string, out *[]int64) {
	*out = append(*out, int64(len(vtC20Sections)))
	for _, sec := range vtC20Sections {
		status := []int64{0, 0, 1, 2, 3, 3, 3, 3}[r.Intn(8)]
		if style == "wellformed" && status != 0 {
			status = 3
		}
		st := int64(r.Intn(12))
		if r.Intn(8) == 0 {
			st += vtC20StyleNulls
		}
		if r.Intn(8) == 0 {
			st += vtC20StyleUnknown
		}
		if r.Intn(9) == 0 {
			st += vtC20StyleCase
		}
		if r.Intn(9) == 0 {
			st += vtC20StylePretty
		}
		*out = append(*out, status, st)
		if status < 2 {
			continue
		}
		vtC20GenFrame(r, out)
		if sec.merge && r.Intn(7) == 0 {
			*out = append(*out, 2) // no clusterStrategy
		} else {
			vtC20GenTree(sec.sch, r, g, 1, sec.merge, out)
		}
		n := r.Intn(4)
		*out = append(*out, int64(n))
		for i := 0; i < n; i++ {
			vtC20GenSelector(r, out)
			if sec.merge && r.Intn(8) == 0 {
				*out = append(*out, 2) // an entry with a selector only
			} else {
				vtC20GenTree(sec.sch, r, g, int64(i+2), sec.merge, out)
			}
		}
	}
}

// characters around the JSON document: mostly none; sometimes white space only (still one JSON
// value); sometimes something else before or — what a streaming decoder would not notice — after it
func vtC20GenFrame(r *rand.Rand, out *[]int64) {
	ws := func() []int64 {
		n := 1 + r.Intn(3)
		l := make([]int64, n)
		for i := range l {
			l[i] = int64(r.Intn(4))
		}
		return l
	}
	junk := func() []int64 {
		l := []int64{int64(4 + r.Intn(len(vtC20FrameChars)-4))}
		if r.Intn(3) == 0 {
			l = append(ws(), l...)
		}
		if r.Intn(3) == 0 {
			l = append(l, ws()...)
		}
		return l
	}
	var lead, trail []int64
	switch k := r.Intn(100); {
	case k < 80:
	case k < 88:
		if r.Intn(2) == 0 {
			lead = ws()
		}
		if lead == nil || r.Intn(2) == 0 {
			trail = ws()
		}
	case k < 96:
		trail = junk()
		if r.Intn(4) == 0 {
			lead = ws()
		}
	case k < 99:
		lead = junk()
	default:
		lead, trail = junk(), junk()
	}
	*out = append(*out, int64(len(lead)))
	*out = append(*out, lead...)
	*out = append(*out, int64(len(trail)))
	*out = append(*out, trail...)
}

// a generated Node: nil = absent; labels as (key value)*, bandwidth annotation as (kind value style)
type vtC20GenNodeT struct {
	kv []int64
	bw [3]int64
}

func vtC20GenNode(r *rand.Rand, pAbsent int) *vtC20GenNodeT {
	if r.Intn(100) < pAbsent {
		return nil
	}
	n := &vtC20GenNodeT{}
	for k := 0; k < 3; k++ {
		if r.Intn(3) != 0 {
			n.kv = append(n.kv, int64(k), int64(r.Intn(3)))
		}
	}
	switch k := r.Intn(100); {
	case k < 68:
	case k < 88:
		n.bw = [3]int64{1, []int64{0, 1, 500, 1000, 2500, 25000, 100000000, 1 << 40}[r.Intn(8)], int64(r.Intn(6))}
	default:
		n.bw = [3]int64{2, 0, int64(r.Intn(6))}
	}
	return n
}

func (n *vtC20GenNodeT) emit(out *[]int64) {
	if n == nil {
		*out = append(*out, 0)
		return
	}
	*out = append(*out, 1, int64(len(n.kv)/2))
	*out = append(*out, n.kv...)
	*out = append(*out, n.bw[:]...)
}

func (n *vtC20GenNodeT) sameLabels(o *vtC20GenNodeT) bool {
	if len(n.kv) != len(o.kv) {
		return false
	}
	for i := range n.kv {
		if n.kv[i] != o.kv[i] {
			return false
		}
	}
	return true
}

// index of the field the node's bandwidth annotation overrides (getSystemConfigSpec), -1 = none
func vtC20BwIndex(sec vtC20Section) int64 {
	if sec.key != configuration.SystemConfigKey {
		return -1
	}
	for i, f := range sec.sch.fields {
		if f.name == "totalNetworkBandwidth" {
			return int64(i)
		}
	}
	panic("verif C20: SystemStrategy has no totalNetworkBandwidth")
}

func vtC20Defaults() []int64 {
	var out []int64
	out = append(out, int64(len(vtC20Sections)))
	dflt := []interface{}{
		sloconfig.DefaultResourceThresholdStrategy(),
		&slov1alpha1.ResourceQOSStrategy{},
		sloconfig.DefaultCPUBurstStrategy(),
		sloconfig.DefaultSystemStrategy(),
		[]slov1alpha1.HostApplicationSpec{},
	}
	for i, sec := range vtC20Sections {
		out = append(out, vtB(sec.merge), vtC20BwIndex(sec))
		vtC20Flat(sec.sch, reflect.ValueOf(dflt[i]), &out)
	}
	return out
}

func vtC20Gen(r *rand.Rand, i int) (string, []int64) {
	style := []string{"sparse", "sparse", "medium", "medium", "dense", "wellformed"}[r.Intn(6)]
	g := vtC20GenCfg{pLeaf: 0.12, pObj: 0.3, pArr: 0.3, pMap: 0.4, pReq: 0.6}
	switch style {
	case "medium", "wellformed":
		g = vtC20GenCfg{pLeaf: 0.3, pObj: 0.45, pArr: 0.4, pMap: 0.5, pReq: 0.6}
	case "dense":
		g = vtC20GenCfg{pLeaf: 0.7, pObj: 0.6, pArr: 0.5, pMap: 0.6, pReq: 0.8}
	}
	in := vtC20Defaults()
	// strict: only what the event handlers enqueue is reconciled. Such a history looks like production:
	// it starts with the controller start, node 0 exists throughout (every restart finds a Node), and no
	// Node update changes the bandwidth annotation alone (the Node handler ignores such an update)
	strict := r.Intn(3) == 0
	nn := 1 + r.Intn(3)
	in = append(in, int64(nn))
	cur := make([]*vtC20GenNodeT, nn)
	for n := 0; n < nn; n++ {
		pAbsent := 8
		if strict && n == 0 {
			pAbsent = 0
		}
		cur[n] = vtC20GenNode(r, pAbsent)
		cur[n].emit(&in)
	}
	in = append(in, vtB(strict))
	nops := 1 + r.Intn(5)
	if strict {
		nops++
	}
	in = append(in, int64(nops))
	var lastCM []int64
	for o := 0; o < nops; o++ {
		kind := []int64{0, 0, 1, 1, 1, 1, 1, 2, 3, 4, 5, 6, 7, 8, 8, 8, 9, 10, 11}[r.Intn(19)]
		if o == 0 && r.Intn(2) == 0 {
			kind = []int64{0, 5, 5, 6}[r.Intn(4)]
		}
		if strict && o == 0 {
			kind = 7
		}
		in = append(in, kind)
		switch kind {
		case 0, 1, 2, 3, 4, 5:
			if kind == 4 {
				in = append(in, int64(r.Intn(6)))
			}
			// sometimes the very ConfigMap of the previous ConfigMap event again (duplicate / resync)
			if lastCM != nil && kind != 4 && r.Intn(6) == 0 {
				in = append(in, lastCM...)
				break
			}
			at := len(in)
			vtC20GenCM(r, g, style, &in)
			if kind != 4 {
				lastCM = append([]int64(nil), in[at:]...)
			}
		case 8:
			i := r.Intn(nn)
			pAbsent := 25
			if strict && i == 0 {
				pAbsent = 0
			}
			nd := vtC20GenNode(r, pAbsent)
			if strict && nd != nil && cur[i] != nil && nd.sameLabels(cur[i]) {
				nd.bw = cur[i].bw
			}
			cur[i] = nd
			in = append(in, int64(i))
			nd.emit(&in)
		case 9, 10:
			in = append(in, int64(r.Intn(nn)))
		case 11:
			in = append(in, int64(r.Intn(nn)), int64(r.Intn(10)))
		}
	}
	if strict {
		style += "-strict"
	}
	return style, in
}

func TestVerifC20(t *testing.T) {
	klog.LogToStderr(false)
	klog.SetOutput(io.Discard)
	vtMain(t, "C20", vtC20Gen, vtC20Exec)
}
