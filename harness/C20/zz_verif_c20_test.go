//go:build verif

package nodeslo

// C20 correspondence harness: node SLO settings are layered default < cluster < first matching
// node override, over sequences of ConfigMap events.
//
// The harness is generic over the Go strategy types: a schema is derived by reflection from
// slov1alpha1.{ResourceThreshold,ResourceQOS,CPUBurst,System}Strategy and []HostApplicationSpec,
// abstract configuration trees (wire format of coq/C20/Model.v [enc]) are generated from the
// schema, rendered to ConfigMap JSON text, fed to the REAL event handler
// (SLOCfgHandlerForConfigMapEvent.Create/Update/Delete/IsCfgAvailable), and after every event the
// REAL NodeSLOReconciler.Reconcile runs for every probe node on a fake client (it creates / updates
// the NodeSLO objects itself); the observable is the DELIVERED NodeSLO.Spec read back from the
// client and flattened by reflection.
//
// input  = nsecs (merge? default-tree)*  nnodes (nlabels (key value)*)*  nops op*   (see coq/C20/Extract.v)

import (
	"context"
	"fmt"
	"io"
	"math/rand"
	"reflect"
	"sort"
	"strconv"
	"strings"
	"testing"

	corev1 "k8s.io/api/core/v1"
	"k8s.io/apimachinery/pkg/api/resource"
	metav1 "k8s.io/apimachinery/pkg/apis/meta/v1"
	"k8s.io/apimachinery/pkg/runtime"
	"k8s.io/apimachinery/pkg/types"
	"k8s.io/apimachinery/pkg/util/intstr"
	clientgoscheme "k8s.io/client-go/kubernetes/scheme"
	"k8s.io/client-go/tools/record"
	"k8s.io/client-go/util/workqueue"
	"k8s.io/klog/v2"
	"sigs.k8s.io/controller-runtime/pkg/client"
	"sigs.k8s.io/controller-runtime/pkg/client/fake"
	"sigs.k8s.io/controller-runtime/pkg/event"
	"sigs.k8s.io/controller-runtime/pkg/reconcile"

	"github.com/koordinator-sh/koordinator/apis/configuration"
	slov1alpha1 "github.com/koordinator-sh/koordinator/apis/slo/v1alpha1"
	"github.com/koordinator-sh/koordinator/pkg/util/sloconfig"
)

// ---------------------------------------------------------------- schema by reflection

type vtC20Kind int

const (
	vtC20Leaf vtC20Kind = iota
	vtC20Obj
	vtC20Arr
	vtC20Map
)

type vtC20Scalar int

const (
	vtC20Int vtC20Scalar = iota
	vtC20Bool
	vtC20String
	vtC20IntStr
	vtC20Quantity
)

type vtC20Schema struct {
	kind   vtC20Kind
	name   string // json field name
	req    bool   // scalar the Go type always marshals
	scalar vtC20Scalar
	bits   int
	ptr    bool
	index  []int // reflect.FieldByIndex path inside the enclosing struct
	fields []*vtC20Schema
	elem   *vtC20Schema
}

var (
	vtC20QuantityT = reflect.TypeOf(resource.Quantity{})
	vtC20IntStrT   = reflect.TypeOf(intstr.IntOrString{})
)

func vtC20SchemaOf(t reflect.Type, name string) *vtC20Schema {
	s := &vtC20Schema{name: name}
	if t == vtC20QuantityT {
		s.kind, s.scalar, s.req = vtC20Leaf, vtC20Quantity, true
		return s
	}
	if t.Kind() == reflect.Ptr {
		s.ptr = true
		e := t.Elem()
		if e == vtC20IntStrT {
			s.kind, s.scalar = vtC20Leaf, vtC20IntStr
			return s
		}
		switch e.Kind() {
		case reflect.Int64, reflect.Int32, reflect.Int:
			s.kind, s.scalar, s.bits = vtC20Leaf, vtC20Int, e.Bits()
		case reflect.Bool:
			s.kind, s.scalar = vtC20Leaf, vtC20Bool
		case reflect.String:
			s.kind, s.scalar = vtC20Leaf, vtC20String
		case reflect.Struct:
			s.kind = vtC20Obj
			s.fields = vtC20Fields(e, nil)
		default:
			panic("verif C20: unsupported pointer type " + t.String())
		}
		return s
	}
	switch t.Kind() {
	case reflect.String:
		s.kind, s.scalar = vtC20Leaf, vtC20String
	case reflect.Struct:
		s.kind = vtC20Obj
		s.fields = vtC20Fields(t, nil)
	case reflect.Slice:
		s.kind = vtC20Arr
		s.elem = vtC20SchemaOf(t.Elem(), "")
		if s.elem.kind != vtC20Obj {
			panic("verif C20: unsupported slice element " + t.String())
		}
	case reflect.Map:
		if t.Key().Kind() != reflect.String || t.Elem().Kind() != reflect.Bool {
			panic("verif C20: unsupported map type " + t.String())
		}
		s.kind = vtC20Map
	default:
		panic("verif C20: unsupported type " + t.String())
	}
	return s
}

// fields of a struct the way encoding/json sees them: embedded structs without a name are inlined
func vtC20Fields(st reflect.Type, prefix []int) []*vtC20Schema {
	var out []*vtC20Schema
	for i := 0; i < st.NumField(); i++ {
		f := st.Field(i)
		tag := f.Tag.Get("json")
		if tag == "-" {
			continue
		}
		name := strings.Split(tag, ",")[0]
		idx := append(append([]int{}, prefix...), i)
		if f.Anonymous && name == "" && f.Type.Kind() == reflect.Struct {
			out = append(out, vtC20Fields(f.Type, idx)...)
			continue
		}
		if name == "" {
			name = f.Name
		}
		c := vtC20SchemaOf(f.Type, name)
		c.index = idx
		out = append(out, c)
	}
	return out
}

type vtC20Section struct {
	key      string // key in ConfigMap.Data
	clusterK string // json key of the cluster-wide value
	nodesK   string // json key of the node entries
	merge    bool
	sch      *vtC20Schema
}

var vtC20Sections = []vtC20Section{
	{configuration.ResourceThresholdConfigKey, "clusterStrategy", "nodeStrategies", true, vtC20SchemaOf(reflect.TypeOf(&slov1alpha1.ResourceThresholdStrategy{}), "")},
	{configuration.ResourceQOSConfigKey, "clusterStrategy", "nodeStrategies", true, vtC20SchemaOf(reflect.TypeOf(&slov1alpha1.ResourceQOSStrategy{}), "")},
	{configuration.CPUBurstConfigKey, "clusterStrategy", "nodeStrategies", true, vtC20SchemaOf(reflect.TypeOf(&slov1alpha1.CPUBurstStrategy{}), "")},
	{configuration.SystemConfigKey, "clusterStrategy", "nodeStrategies", true, vtC20SchemaOf(reflect.TypeOf(&slov1alpha1.SystemStrategy{}), "")},
	{configuration.HostApplicationConfigKey, "applications", "nodeConfigs", false, vtC20SchemaOf(reflect.TypeOf([]slov1alpha1.HostApplicationSpec{}), "")},
}

// ---------------------------------------------------------------- leaf values <-> integers

var vtC20Known = []string{"cpuset", "cfsQuota", "evictByRealLimit", "evictByAllocatable", "none",
	"cpuBurstOnly", "cfsQuotaBurstOnly", "auto", "groupIdentity", "coreSched", "tc", "terway-qos",
	"device", "volumegroup", "podvolume"}

func vtC20Str(v int64) string {
	if v < 0 {
		return vtC20Known[-v-1]
	}
	return fmt.Sprintf("s%d", v)
}

func vtC20StrID(s string) int64 {
	if strings.HasPrefix(s, "s") {
		if v, err := strconv.ParseInt(s[1:], 10, 64); err == nil {
			return v
		}
	}
	for i, k := range vtC20Known {
		if k == s {
			return -int64(i) - 1
		}
	}
	panic("verif C20: string outside the harness universe: " + s)
}

// ---------------------------------------------------------------- flatten a real value

func vtC20Flat(s *vtC20Schema, v reflect.Value, out *[]int64) {
	switch s.kind {
	case vtC20Leaf:
		if s.req {
			q := v.Interface().(resource.Quantity)
			*out = append(*out, 7, q.Value())
			return
		}
		if s.ptr {
			if v.IsNil() {
				*out = append(*out, 0)
				return
			}
			v = v.Elem()
		}
		switch s.scalar {
		case vtC20Int:
			*out = append(*out, 1, v.Int())
		case vtC20Bool:
			*out = append(*out, 1, vtB(v.Bool()))
		case vtC20String:
			if !s.ptr && v.String() == "" {
				*out = append(*out, 0)
			} else {
				*out = append(*out, 1, vtC20StrID(v.String()))
			}
		case vtC20IntStr:
			is := v.Interface().(intstr.IntOrString)
			if is.Type == intstr.Int {
				*out = append(*out, 1, 2*int64(is.IntVal))
			} else {
				n, err := strconv.ParseInt(strings.TrimSuffix(is.StrVal, "M"), 10, 64)
				if err != nil {
					panic("verif C20: IntOrString outside the harness universe: " + is.StrVal)
				}
				*out = append(*out, 1, 2*n+1)
			}
		}
	case vtC20Obj:
		if s.ptr {
			if v.IsNil() {
				*out = append(*out, 2)
				return
			}
			v = v.Elem()
		}
		*out = append(*out, 3, int64(len(s.fields)))
		for _, f := range s.fields {
			vtC20Flat(f, v.FieldByIndex(f.index), out)
		}
	case vtC20Arr:
		*out = append(*out, 4, int64(v.Len()))
		for i := 0; i < v.Len(); i++ {
			vtC20Flat(s.elem, v.Index(i), out)
		}
	case vtC20Map:
		keys := make([]string, 0, v.Len())
		for _, k := range v.MapKeys() {
			keys = append(keys, k.String())
		}
		sort.Strings(keys)
		*out = append(*out, 5, int64(len(keys)))
		for _, k := range keys {
			n, err := strconv.ParseInt(strings.TrimPrefix(k, "f"), 10, 64)
			if err != nil {
				panic("verif C20: map key outside the harness universe: " + k)
			}
			*out = append(*out, n, vtB(v.MapIndex(reflect.ValueOf(k)).Bool()))
		}
	}
}

// ---------------------------------------------------------------- render an abstract tree as JSON text

type vtC20Cur struct {
	in []int64
	p  int
}

func (c *vtC20Cur) next() int64 {
	v := c.in[c.p]
	c.p++
	return v
}

const (
	vtC20StyleNulls   = 16 // absent fields are written as explicit null
	vtC20StyleUnknown = 32 // every object gets an unknown extra field
)

func vtC20LeafText(s *vtC20Schema, v int64) string {
	switch s.scalar {
	case vtC20Int:
		return strconv.FormatInt(v, 10)
	case vtC20Bool:
		if v != 0 {
			return "true"
		}
		return "false"
	case vtC20String:
		return strconv.Quote(vtC20Str(v))
	case vtC20IntStr:
		if v%2 == 0 {
			return strconv.FormatInt(v/2, 10)
		}
		return strconv.Quote(fmt.Sprintf("%dM", (v-1)/2))
	case vtC20Quantity:
		return strconv.Quote(strconv.FormatInt(v, 10))
	}
	panic("verif C20: scalar kind")
}

// members of a JSON object for the fields of [s], consuming "3 n f1..fn" after the tag
func vtC20Members(s *vtC20Schema, c *vtC20Cur, style int64) []string {
	return vtC20MembersX(s, c, style, style&vtC20StyleNulls != 0)
}

// nullsHere: write absent direct members as explicit null (nested objects follow [style])
func vtC20MembersX(s *vtC20Schema, c *vtC20Cur, style int64, nullsHere bool) []string {
	n := int(c.next())
	if n != len(s.fields) {
		panic("verif C20: tree does not fit the schema")
	}
	var ms []string
	for _, f := range s.fields {
		txt, absent := vtC20Render(f, c, style)
		if absent {
			if nullsHere {
				ms = append(ms, strconv.Quote(f.name)+":null")
			}
			continue
		}
		ms = append(ms, strconv.Quote(f.name)+":"+txt)
	}
	if style&vtC20StyleUnknown != 0 {
		ms = append(ms, `"zzUnknown":{"a":[1,"x"]}`)
	}
	return ms
}

func vtC20Render(s *vtC20Schema, c *vtC20Cur, style int64) (string, bool) {
	tag := c.next()
	switch tag {
	case 0, 6, 2:
		return "", true
	case 1, 7:
		return vtC20LeafText(s, c.next()), false
	case 3:
		return "{" + strings.Join(vtC20Members(s, c, style), ",") + "}", false
	case 4:
		n := int(c.next())
		es := make([]string, n)
		for i := 0; i < n; i++ {
			es[i], _ = vtC20Render(s.elem, c, style)
		}
		return "[" + strings.Join(es, ",") + "]", n == 0
	case 5:
		n := int(c.next())
		es := make([]string, n)
		for i := 0; i < n; i++ {
			k, v := c.next(), c.next()
			es[i] = fmt.Sprintf(`"f%03d":%v`, k, v != 0)
		}
		return "{" + strings.Join(es, ",") + "}", n == 0
	}
	panic("verif C20: bad tree tag")
}

func vtC20SkipTree(c *vtC20Cur) {
	switch c.next() {
	case 1, 7:
		c.next()
	case 3, 4:
		n := int(c.next())
		for i := 0; i < n; i++ {
			vtC20SkipTree(c)
		}
	case 5:
		n := int(c.next())
		c.p += 2 * n
	}
}

var vtC20Ops = []string{"", "In", "NotIn", "Exists", "DoesNotExist", "Bogus"}

func vtC20Selector(c *vtC20Cur) (string, bool) {
	if c.next() == 0 {
		return "", true
	}
	n := int(c.next())
	var ml, me []string
	for i := 0; i < n; i++ {
		key, op, nv := c.next(), c.next(), int(c.next())
		vals := make([]string, nv)
		for j := range vals {
			vals[j] = strconv.Quote(fmt.Sprintf("v%d", c.next()))
		}
		if op == 0 && nv == 1 {
			ml = append(ml, fmt.Sprintf(`"k%d":%s`, key, vals[0]))
			continue
		}
		o := "Bogus"
		if op >= 1 && op <= 4 {
			o = vtC20Ops[op]
		} else if op == 0 {
			o = "In" // matchLabels needs exactly one value; otherwise an (invalid or multi-valued) In
		}
		e := fmt.Sprintf(`{"key":"k%d","operator":%q`, key, o)
		if nv > 0 {
			e += `,"values":[` + strings.Join(vals, ",") + "]"
		}
		me = append(me, e+"}")
	}
	var ms []string
	if len(ml) > 0 {
		ms = append(ms, `"matchLabels":{`+strings.Join(ml, ",")+"}")
	}
	if len(me) > 0 {
		ms = append(ms, `"matchExpressions":[`+strings.Join(me, ",")+"]")
	}
	return "{" + strings.Join(ms, ",") + "}", false
}

// text of one section; ok=false when the key is absent from ConfigMap.Data
func vtC20SectionText(sec vtC20Section, c *vtC20Cur) (string, bool) {
	status, style := c.next(), c.next()
	switch status {
	case 0:
		return "", false
	case 1:
		return []string{`{"` + sec.clusterK + `":{`, "", "[1,2]", "not json"}[style%4], true
	}
	var ms []string
	clusterTxt, absent := vtC20Render(sec.sch, c, style)
	if status == 2 && style%3 == 2 {
		clusterTxt, absent = `"oops"`, false
	}
	if !absent {
		ms = append(ms, strconv.Quote(sec.clusterK)+":"+clusterTxt)
	} else if style&vtC20StyleNulls != 0 {
		ms = append(ms, strconv.Quote(sec.clusterK)+":null")
	}
	n := int(c.next())
	var es []string
	for i := 0; i < n; i++ {
		// profile names are unique but NOT in ConfigMap order (precedence is the position, not the name)
		em := []string{fmt.Sprintf(`"name":"n%d"`, (int64(i)*3+style)%7)}
		selTxt, selNil := vtC20Selector(c)
		if !selNil {
			em = append(em, `"nodeSelector":`+selTxt)
		} else if style&vtC20StyleNulls != 0 {
			em = append(em, `"nodeSelector":null`)
		}
		if sec.merge {
			// the strategy is an embedded pointer: its fields are inlined into the entry. Even a
			// null member makes encoding/json allocate the embedded struct, so direct members
			// are never written as null (the model keys on "some member is written").
			if tag := c.next(); tag == 3 {
				em = append(em, vtC20MembersX(sec.sch, c, style, false)...)
			} else if tag != 2 {
				panic("verif C20: node strategy must be an object")
			}
		} else {
			c2 := c
			txt, abs := vtC20Render(sec.sch, c2, style)
			if !abs {
				em = append(em, `"applications":`+txt)
			}
		}
		es = append(es, "{"+strings.Join(em, ",")+"}")
	}
	if status == 2 {
		switch style % 3 {
		case 0:
			es = append(es, `{"name":7}`)
		case 1:
			es = append([]string{`{"name":7}`}, es...)
		}
	}
	if len(es) > 0 {
		ms = append(ms, strconv.Quote(sec.nodesK)+":["+strings.Join(es, ",")+"]")
	}
	if style&vtC20StyleUnknown != 0 {
		ms = append(ms, `"zzTop":3`)
	}
	if len(ms) == 0 && style&vtC20StyleNulls != 0 && status == 3 {
		return "null", true
	}
	return "{" + strings.Join(ms, ",") + "}", true
}

func vtC20ConfigMap(c *vtC20Cur) *corev1.ConfigMap {
	cm := &corev1.ConfigMap{
		ObjectMeta: metav1.ObjectMeta{Name: sloconfig.SLOCtrlConfigMap, Namespace: sloconfig.ConfigNameSpace},
		Data:       map[string]string{},
	}
	n := int(c.next())
	for i := 0; i < n; i++ {
		if txt, ok := vtC20SectionText(vtC20Sections[i], c); ok {
			cm.Data[vtC20Sections[i].key] = txt
		}
	}
	return cm
}

// ---------------------------------------------------------------- exec

func vtC20Exec(in []int64) []int64 {
	c := &vtC20Cur{in: in}
	nsec := int(c.next())
	for i := 0; i < nsec; i++ {
		c.next()
		vtC20SkipTree(c) // the built-in defaults are the implementation's own business
	}
	nn := int(c.next())
	nodes := make([]*corev1.Node, nn)
	for i := range nodes {
		nl := int(c.next())
		lbl := map[string]string{}
		for j := 0; j < nl; j++ {
			k, v := c.next(), c.next()
			lbl[fmt.Sprintf("k%d", k)] = fmt.Sprintf("v%d", v)
		}
		nodes[i] = &corev1.Node{ObjectMeta: metav1.ObjectMeta{Name: fmt.Sprintf("node%02d", i), Labels: lbl}}
	}

	ctx := context.TODO()
	objs := make([]client.Object, len(nodes))
	for i := range nodes {
		objs[i] = nodes[i].DeepCopy()
	}
	cl := fake.NewClientBuilder().WithScheme(vtC20Scheme).WithObjects(objs...).Build()
	handler := NewSLOCfgHandlerForConfigMapEvent(cl, DefaultSLOCfg(), &record.FakeRecorder{})
	rec := &NodeSLOReconciler{Client: cl, sloCfgCache: handler, Scheme: vtC20Scheme, Recorder: &record.FakeRecorder{}}
	q := workqueue.NewTypedRateLimitingQueue[reconcile.Request](workqueue.DefaultTypedControllerRateLimiter[reconcile.Request]())
	defer q.ShutDown()

	// the informer cache (the client) holds the slo-controller ConfigMap the way the API server would
	setInformer := func(cm *corev1.ConfigMap) {
		old := &corev1.ConfigMap{}
		if err := cl.Get(ctx, client.ObjectKey{Namespace: sloconfig.ConfigNameSpace, Name: sloconfig.SLOCtrlConfigMap}, old); err == nil {
			_ = cl.Delete(ctx, old)
		}
		if cm != nil {
			if err := cl.Create(ctx, cm.DeepCopy()); err != nil {
				panic(err)
			}
		}
	}
	reconcileOne := func(req reconcile.Request) {
		if _, err := rec.Reconcile(ctx, req); err != nil {
			panic(err)
		}
	}

	var obs []int64
	nops := int(c.next())
	for o := 0; o < nops; o++ {
		kind := c.next()
		var cm *corev1.ConfigMap
		if kind != 6 {
			cm = vtC20ConfigMap(c)
		}
		switch kind {
		case 0:
			setInformer(cm)
			handler.Create(ctx, event.TypedCreateEvent[client.Object]{Object: cm}, q)
		case 1:
			old := cm.DeepCopy()
			old.Data["zz-previous"] = "x"
			setInformer(cm)
			handler.Update(ctx, event.TypedUpdateEvent[client.Object]{ObjectOld: old, ObjectNew: cm}, q)
		case 2:
			setInformer(cm)
			handler.Update(ctx, event.TypedUpdateEvent[client.Object]{ObjectOld: cm.DeepCopy(), ObjectNew: cm}, q)
		case 3:
			setInformer(nil)
			handler.Delete(ctx, event.TypedDeleteEvent[client.Object]{Object: cm}, q)
		case 4:
			other := cm.DeepCopy()
			other.Name = "some-other-config"
			handler.Create(ctx, event.TypedCreateEvent[client.Object]{Object: other}, q)
		case 5:
			setInformer(cm)
			handler.IsCfgAvailable()
		case 6:
			setInformer(nil)
			handler.IsCfgAvailable()
		default:
			panic("verif C20: bad op kind")
		}
		// delivery: first whatever the handler enqueued, then every probe node (node events and
		// resyncs reconcile nodes at any time); the REAL Reconcile creates / updates the NodeSLO
		for q.Len() > 0 {
			req, _ := q.Get()
			reconcileOne(req)
			q.Forget(req)
			q.Done(req)
		}
		for _, node := range nodes {
			reconcileOne(reconcile.Request{NamespacedName: types.NamespacedName{Name: node.Name}})
		}
		// the observable is what was DELIVERED: NodeSLO.Spec read back from the API (fake client)
		for _, node := range nodes {
			nodeSLO := &slov1alpha1.NodeSLO{}
			if err := cl.Get(ctx, types.NamespacedName{Name: node.Name}, nodeSLO); err != nil {
				obs = append(obs, -888888)
				continue
			}
			spec := &nodeSLO.Spec
			vtC20Flat(vtC20Sections[0].sch, reflect.ValueOf(spec.ResourceUsedThresholdWithBE), &obs)
			vtC20Flat(vtC20Sections[1].sch, reflect.ValueOf(spec.ResourceQOSStrategy), &obs)
			vtC20Flat(vtC20Sections[2].sch, reflect.ValueOf(spec.CPUBurstStrategy), &obs)
			vtC20Flat(vtC20Sections[3].sch, reflect.ValueOf(spec.SystemStrategy), &obs)
			vtC20Flat(vtC20Sections[4].sch, reflect.ValueOf(spec.HostApplications), &obs)
		}
	}
	return obs
}

var vtC20Scheme = func() *runtime.Scheme {
	s := runtime.NewScheme()
	_ = clientgoscheme.AddToScheme(s)
	_ = slov1alpha1.AddToScheme(s)
	return s
}()

// ---------------------------------------------------------------- generator

type vtC20GenCfg struct {
	pLeaf, pObj, pArr, pMap, pReq float64
}

func vtC20GenLeaf(s *vtC20Schema, r *rand.Rand, layer int64) int64 {
	switch s.scalar {
	case vtC20Bool:
		return int64(r.Intn(2))
	case vtC20String:
		return layer*10 + int64(r.Intn(3))
	case vtC20IntStr:
		return 2*(layer*100+int64(r.Intn(4))) + int64(r.Intn(2))
	case vtC20Quantity:
		if r.Intn(6) == 0 {
			return 0
		}
		return layer*1000 + int64(r.Intn(4))
	}
	switch r.Intn(12) {
	case 0:
		return 0
	case 1:
		return -1 - int64(r.Intn(30))
	case 2:
		if s.bits == 64 {
			return vtQty(r, int64(1)<<62)
		}
	}
	return layer*100 + int64(r.Intn(5))
}

func vtC20GenTree(s *vtC20Schema, r *rand.Rand, g vtC20GenCfg, layer int64, force bool, out *[]int64) {
	switch s.kind {
	case vtC20Leaf:
		if s.req {
			if r.Float64() < g.pReq {
				*out = append(*out, 7, vtC20GenLeaf(s, r, layer))
			} else {
				*out = append(*out, 6)
			}
			return
		}
		if r.Float64() < g.pLeaf {
			*out = append(*out, 1, vtC20GenLeaf(s, r, layer))
		} else {
			*out = append(*out, 0)
		}
	case vtC20Obj:
		if s.ptr && !force && r.Float64() >= g.pObj {
			*out = append(*out, 2)
			return
		}
		*out = append(*out, 3, int64(len(s.fields)))
		for _, f := range s.fields {
			vtC20GenTree(f, r, g, layer, false, out)
		}
	case vtC20Arr:
		n := 0
		if force || r.Float64() < g.pArr {
			n = 1 + r.Intn(3)
		}
		*out = append(*out, 4, int64(n))
		for i := 0; i < n; i++ {
			vtC20GenTree(s.elem, r, g, layer, true, out)
		}
	case vtC20Map:
		var keys []int
		if r.Float64() < g.pMap {
			for k := 0; k < 5; k++ {
				if r.Intn(2) == 0 {
					keys = append(keys, k)
				}
			}
		}
		*out = append(*out, 5, int64(len(keys)))
		for _, k := range keys {
			*out = append(*out, int64(k), int64(r.Intn(2)))
		}
	}
}

func vtC20GenSelector(r *rand.Rand, out *[]int64) {
	switch r.Intn(10) {
	case 0:
		*out = append(*out, 0) // nil selector: selects nothing
		return
	case 1:
		*out = append(*out, 1, 0) // empty selector: selects everything
		return
	}
	n := 1 + r.Intn(2)
	*out = append(*out, 1, int64(n))
	used := map[int]bool{}
	for i := 0; i < n; i++ {
		key := r.Intn(3)
		op := []int{0, 0, 0, 1, 1, 2, 3, 4, 5}[r.Intn(9)]
		if op == 0 && used[key] {
			op = 3
		}
		if op == 0 {
			used[key] = true
		}
		nv := 0
		switch op {
		case 0:
			nv = 1
		case 1, 2:
			nv = 1 + r.Intn(2)
			if r.Intn(12) == 0 {
				nv = 0 // invalid: empty value set
			}
		case 3, 4:
			if r.Intn(12) == 0 {
				nv = 1 // invalid: values with Exists / DoesNotExist
			}
		case 5:
			nv = r.Intn(2)
		}
		*out = append(*out, int64(key), int64(op), int64(nv))
		for j := 0; j < nv; j++ {
			*out = append(*out, int64(r.Intn(3)))
		}
	}
}

func vtC20GenCM(r *rand.Rand, g vtC20GenCfg, style string, out *[]int64) {
	*out = append(*out, int64(len(vtC20Sections)))
	for _, sec := range vtC20Sections {
		status := []int64{0, 0, 1, 2, 3, 3, 3, 3}[r.Intn(8)]
		if style == "wellformed" && status != 0 {
			status = 3
		}
		st := int64(r.Intn(12))
		if r.Intn(8) == 0 {
			st += vtC20StyleNulls
		}
		if r.Intn(8) == 0 {
			st += vtC20StyleUnknown
		}
		*out = append(*out, status, st)
		if status < 2 {
			continue
		}
		if sec.merge && r.Intn(7) == 0 {
			*out = append(*out, 2) // no clusterStrategy
		} else {
			vtC20GenTree(sec.sch, r, g, 1, sec.merge, out)
		}
		n := r.Intn(4)
		*out = append(*out, int64(n))
		for i := 0; i < n; i++ {
			vtC20GenSelector(r, out)
			if sec.merge && r.Intn(8) == 0 {
				*out = append(*out, 2) // an entry with a selector only
			} else {
				vtC20GenTree(sec.sch, r, g, int64(i+2), sec.merge, out)
			}
		}
	}
}

func vtC20Defaults() []int64 {
	var out []int64
	out = append(out, int64(len(vtC20Sections)))
	dflt := []interface{}{
		sloconfig.DefaultResourceThresholdStrategy(),
		&slov1alpha1.ResourceQOSStrategy{},
		sloconfig.DefaultCPUBurstStrategy(),
		sloconfig.DefaultSystemStrategy(),
		[]slov1alpha1.HostApplicationSpec{},
	}
	for i, sec := range vtC20Sections {
		out = append(out, vtB(sec.merge))
		vtC20Flat(sec.sch, reflect.ValueOf(dflt[i]), &out)
	}
	return out
}

func vtC20Gen(r *rand.Rand, i int) (string, []int64) {
	style := []string{"sparse", "sparse", "medium", "medium", "dense", "wellformed"}[r.Intn(6)]
	g := vtC20GenCfg{pLeaf: 0.12, pObj: 0.3, pArr: 0.3, pMap: 0.4, pReq: 0.6}
	switch style {
	case "medium", "wellformed":
		g = vtC20GenCfg{pLeaf: 0.3, pObj: 0.45, pArr: 0.4, pMap: 0.5, pReq: 0.6}
	case "dense":
		g = vtC20GenCfg{pLeaf: 0.7, pObj: 0.6, pArr: 0.5, pMap: 0.6, pReq: 0.8}
	}
	in := vtC20Defaults()
	nn := 1 + r.Intn(3)
	in = append(in, int64(nn))
	for n := 0; n < nn; n++ {
		var kv []int64
		for k := 0; k < 3; k++ {
			if r.Intn(3) != 0 {
				kv = append(kv, int64(k), int64(r.Intn(3)))
			}
		}
		in = append(in, int64(len(kv)/2))
		in = append(in, kv...)
	}
	nops := 1 + r.Intn(4)
	in = append(in, int64(nops))
	for o := 0; o < nops; o++ {
		kind := []int64{0, 0, 1, 1, 1, 1, 2, 3, 4, 5, 6}[r.Intn(11)]
		if o == 0 && r.Intn(2) == 0 {
			kind = []int64{0, 5, 5, 6}[r.Intn(4)]
		}
		in = append(in, kind)
		if kind != 6 {
			vtC20GenCM(r, g, style, &in)
		}
	}
	return style, in
}

func TestVerifC20(t *testing.T) {
	klog.LogToStderr(false)
	klog.SetOutput(io.Discard)
	vtMain(t, "C20", vtC20Gen, vtC20Exec)
}
