//go:build verif

package reservation

// C05 — correspondence harness: drives the real reservation cache (through the reservation
// and pod event handlers and the direct cache calls of Reserve/Unreserve), fitsReservation /
// fitsNodeAndReservation and ReservationInfo.MatchOwners, and logs projected observables in
// the flat-integer wire format of /verif/coq/C05/Codec.v.

import (
	"context"
	"encoding/json"
	"flag"
	"fmt"
	"io"
	"math/rand"
	"sort"
	"strings"
	"testing"
	"time"

	corev1 "k8s.io/api/core/v1"
	"k8s.io/apimachinery/pkg/api/resource"
	metav1 "k8s.io/apimachinery/pkg/apis/meta/v1"
	"k8s.io/apimachinery/pkg/types"
	"k8s.io/apimachinery/pkg/labels"
	kubeinformers "k8s.io/client-go/informers"
	kubefake "k8s.io/client-go/kubernetes/fake"
	clientcache "k8s.io/client-go/tools/cache"
	"k8s.io/klog/v2"
	fwktype "k8s.io/kube-scheduler/framework"
	"k8s.io/kubernetes/pkg/scheduler"
	"k8s.io/kubernetes/pkg/scheduler/framework"
	"k8s.io/kubernetes/pkg/scheduler/profile"

	apiext "github.com/koordinator-sh/koordinator/apis/extension"
	schedulingv1alpha1 "github.com/koordinator-sh/koordinator/apis/scheduling/v1alpha1"
	koordinformers "github.com/koordinator-sh/koordinator/pkg/client/informers/externalversions"
	koordschedinformers "github.com/koordinator-sh/koordinator/pkg/client/informers/externalversions/scheduling"
	koordschedv1alpha1informers "github.com/koordinator-sh/koordinator/pkg/client/informers/externalversions/scheduling/v1alpha1"
	"github.com/koordinator-sh/koordinator/pkg/scheduler/frameworkext"
	"github.com/koordinator-sh/koordinator/pkg/scheduler/frameworkext/eventhandlers"
	reservationutil "github.com/koordinator-sh/koordinator/pkg/util/reservation"
)

// ---------------------------------------------------------------- ids <-> names

var vtC05Dims = []corev1.ResourceName{"cpu", "ex.io/a", "ex.io/b", "memory", "pods"} // ids 1..5, string order

func vtC05ResName(id int64) corev1.ResourceName {
	if id >= 1 && id <= int64(len(vtC05Dims)) {
		return vtC05Dims[id-1]
	}
	return corev1.ResourceName(fmt.Sprintf("zz.io/r%03d", id))
}

func vtC05ResID(n corev1.ResourceName) int64 {
	for i, d := range vtC05Dims {
		if d == n {
			return int64(i + 1)
		}
	}
	var id int64
	if _, err := fmt.Sscanf(string(n), "zz.io/r%03d", &id); err == nil {
		return id
	}
	return -1
}

func vtC05Str(prefix string, id int64) string {
	if id == 0 {
		return ""
	}
	return fmt.Sprintf("%s%02d", prefix, id)
}

func vtC05ID(prefix, s string) int64 {
	if s == "" {
		return 0
	}
	var id int64
	if _, err := fmt.Sscanf(strings.TrimPrefix(s, prefix), "%d", &id); err != nil {
		return -2
	}
	return id
}

// reservation uids: id 1..99 is the Reservation "rNN"; id 100+NN is the operating pod "pNN"
// (an operating pod is cached under its own pod uid)
func vtC05RsvUID(id int64) types.UID {
	if id > 100 {
		return types.UID(vtC05Str("p", id-100))
	}
	return types.UID(vtC05Str("r", id))
}

func vtC05RsvID(u string) int64 {
	if strings.HasPrefix(u, "p") {
		return 100 + vtC05ID("p", u)
	}
	return vtC05ID("r", u)
}

func vtC05Qty(id, v int64) resource.Quantity {
	if id == 1 {
		return *resource.NewMilliQuantity(v, resource.DecimalSI)
	}
	return *resource.NewQuantity(v, resource.DecimalSI)
}

func vtC05Val(id int64, q resource.Quantity) int64 {
	if id == 1 {
		return q.MilliValue()
	}
	return q.Value()
}

// ---------------------------------------------------------------- wire reader

type vtC05Reader struct {
	in  []int64
	pos int
}

func (r *vtC05Reader) next() int64 {
	if r.pos >= len(r.in) {
		return 0
	}
	v := r.in[r.pos]
	r.pos++
	return v
}

func (r *vtC05Reader) list() []int64 {
	n := int(r.next())
	out := make([]int64, 0, n)
	for i := 0; i < n; i++ {
		out = append(out, r.next())
	}
	return out
}

// res returns nil for an empty list
func (r *vtC05Reader) res() corev1.ResourceList {
	n := int(r.next())
	if n == 0 {
		return nil
	}
	out := corev1.ResourceList{}
	for i := 0; i < n; i++ {
		k, v := r.next(), r.next()
		out[vtC05ResName(k)] = vtC05Qty(k, v)
	}
	return out
}

func vtC05Vals(l corev1.ResourceList, absent int64) []int64 {
	out := make([]int64, 0, len(vtC05Dims))
	for i, d := range vtC05Dims {
		if q, ok := l[d]; ok {
			out = append(out, vtC05Val(int64(i+1), q))
		} else {
			out = append(out, absent)
		}
	}
	return out
}

// ---------------------------------------------------------------- object builders

type vtC05Spec struct {
	uid, node, phase, term, once, policy, opts int64
	optres                                     []int64
	alloc, reserved                            corev1.ResourceList
	ownbad                                     int64
}

func (r *vtC05Reader) spec() vtC05Spec {
	s := vtC05Spec{uid: r.next(), node: r.next(), phase: r.next(), term: r.next(), once: r.next(), policy: r.next(), opts: r.next()}
	s.optres = r.list()
	s.alloc = r.res()
	s.reserved = r.res()
	s.ownbad = r.next()
	return s
}

var vtC05Phases = []schedulingv1alpha1.ReservationPhase{
	schedulingv1alpha1.ReservationPending, schedulingv1alpha1.ReservationAvailable,
	schedulingv1alpha1.ReservationSucceeded, schedulingv1alpha1.ReservationFailed,
	schedulingv1alpha1.ReservationWaiting,
}

var vtC05Policies = []schedulingv1alpha1.ReservationAllocatePolicy{
	schedulingv1alpha1.ReservationAllocatePolicyDefault, schedulingv1alpha1.ReservationAllocatePolicyAligned,
	schedulingv1alpha1.ReservationAllocatePolicyRestricted,
}

func vtC05Reservation(s vtC05Spec) *schedulingv1alpha1.Reservation {
	r := &schedulingv1alpha1.Reservation{
		ObjectMeta: metav1.ObjectMeta{
			Name:        vtC05Str("r", s.uid),
			UID:         types.UID(vtC05Str("r", s.uid)),
			Annotations: map[string]string{},
		},
		Spec: schedulingv1alpha1.ReservationSpec{
			Template: &corev1.PodTemplateSpec{
				Spec: corev1.PodSpec{Containers: []corev1.Container{{
					Name:      "main",
					Resources: corev1.ResourceRequirements{Requests: s.alloc.DeepCopy()},
				}}},
			},
			AllocatePolicy: vtC05Policies[int(s.policy)%len(vtC05Policies)],
			TTL:            &metav1.Duration{Duration: 24 * time.Hour}, // ValidateReservation (scheduler-wide handler) wants an expiration
		},
		Status: schedulingv1alpha1.ReservationStatus{
			Phase:       vtC05Phases[int(s.phase)%len(vtC05Phases)],
			NodeName:    vtC05Str("n", s.node),
			Allocatable: s.alloc.DeepCopy(),
		},
	}
	if s.once == 0 {
		f := false
		r.Spec.AllocateOnce = &f
	} else if s.uid%2 == 0 { // explicit true for even uids, nil (defaults to true) for odd ones
		tr := true
		r.Spec.AllocateOnce = &tr
	}
	if s.term != 0 {
		now := metav1.Now()
		r.DeletionTimestamp = &now
	}
	switch s.opts {
	case 1:
		opt := &apiext.ReservationRestrictedOptions{}
		for _, k := range s.optres {
			opt.Resources = append(opt.Resources, vtC05ResName(k))
		}
		data, _ := json.Marshal(opt)
		r.Annotations[apiext.AnnotationReservationRestrictedOptions] = string(data)
	case 2:
		r.Annotations[apiext.AnnotationReservationRestrictedOptions] = "{bad"
	}
	if len(s.reserved) > 0 {
		data, _ := json.Marshal(&apiext.NodeReservation{Resources: s.reserved})
		r.Annotations[apiext.AnnotationNodeReservation] = string(data)
	}
	if s.ownbad != 0 {
		r.Spec.Owners = []schedulingv1alpha1.ReservationOwner{{LabelSelector: &metav1.LabelSelector{
			MatchExpressions: []metav1.LabelSelectorRequirement{{Key: "k1", Operator: metav1.LabelSelectorOpIn}},
		}}}
	} else {
		r.Spec.Owners = []schedulingv1alpha1.ReservationOwner{{LabelSelector: &metav1.LabelSelector{
			MatchLabels: map[string]string{"app": fmt.Sprintf("x%d", s.uid)}, // each reservation has its own owner label
		}}}
	}
	return r
}

// vtC05Pod builds a pod whose PodRequests are req; pods with an even uid carry them in two containers.
func vtC05Pod(uid int64, req corev1.ResourceList, node int64, done bool, rsv int64) *corev1.Pod {
	p := &corev1.Pod{
		ObjectMeta: metav1.ObjectMeta{
			Name: vtC05Str("p", uid), Namespace: "default", UID: types.UID(vtC05Str("p", uid)),
		},
		Spec: corev1.PodSpec{NodeName: vtC05Str("n", node)},
	}
	if uid%2 == 0 && len(req) > 0 {
		a, b := corev1.ResourceList{}, corev1.ResourceList{}
		for k, q := range req {
			id := vtC05ResID(k)
			v := vtC05Val(id, q)
			a[k] = vtC05Qty(id, v/2)
			b[k] = vtC05Qty(id, v-v/2)
		}
		p.Spec.Containers = []corev1.Container{
			{Name: "a", Resources: corev1.ResourceRequirements{Requests: a}},
			{Name: "b", Resources: corev1.ResourceRequirements{Requests: b}},
		}
	} else {
		p.Spec.Containers = []corev1.Container{{Name: "a", Resources: corev1.ResourceRequirements{Requests: req.DeepCopy()}}}
	}
	if done {
		p.Status.Phase = corev1.PodSucceeded
	} else {
		p.Status.Phase = corev1.PodRunning
	}
	if rsv != 0 {
		data, _ := json.Marshal(&apiext.ReservationAllocated{Name: string(vtC05RsvUID(rsv)), UID: vtC05RsvUID(rsv)})
		p.Annotations = map[string]string{apiext.AnnotationReservationAllocated: string(data)}
	}
	return p
}

// pod event: uid node done rsv (req) opflag [ready term opts (optres) (reserved) ownbad owner]
func (r *vtC05Reader) pev() *corev1.Pod {
	uid, node, done, rsv := r.next(), r.next(), r.next(), r.next()
	req := r.res()
	p := vtC05Pod(uid, req, node, done != 0, rsv)
	if r.next() == 0 {
		return p
	}
	ready, term, opts := r.next(), r.next(), r.next()
	optres := r.list()
	reserved := r.res()
	ownbad, owner := r.next(), r.next()
	p.Labels = map[string]string{apiext.LabelPodOperatingMode: string(apiext.ReservationPodOperatingMode)}
	if p.Annotations == nil {
		p.Annotations = map[string]string{}
	}
	if ready != 0 && done == 0 {
		p.Status.Conditions = []corev1.PodCondition{{Type: corev1.PodReady, Status: corev1.ConditionTrue}}
	}
	if term != 0 {
		now := metav1.Now()
		p.DeletionTimestamp = &now
	}
	switch opts {
	case 1:
		opt := &apiext.ReservationRestrictedOptions{}
		for _, k := range optres {
			opt.Resources = append(opt.Resources, vtC05ResName(k))
		}
		data, _ := json.Marshal(opt)
		p.Annotations[apiext.AnnotationReservationRestrictedOptions] = string(data)
	case 2:
		p.Annotations[apiext.AnnotationReservationRestrictedOptions] = "{bad"
	}
	if len(reserved) > 0 {
		data, _ := json.Marshal(&apiext.NodeReservation{Resources: reserved})
		p.Annotations[apiext.AnnotationNodeReservation] = string(data)
	}
	var owners []schedulingv1alpha1.ReservationOwner
	if ownbad != 0 {
		owners = []schedulingv1alpha1.ReservationOwner{{LabelSelector: &metav1.LabelSelector{
			MatchExpressions: []metav1.LabelSelectorRequirement{{Key: "k1", Operator: metav1.LabelSelectorOpIn}},
		}}}
	} else {
		owners = []schedulingv1alpha1.ReservationOwner{{LabelSelector: &metav1.LabelSelector{
			MatchLabels: map[string]string{"app": fmt.Sprintf("x%d", 100+uid)},
		}}}
	}
	data, _ := json.Marshal(owners)
	p.Annotations[apiext.AnnotationReservationOwners] = string(data)
	if owner != 0 {
		data, _ := json.Marshal(&corev1.ObjectReference{Name: vtC05Str("p", owner), Namespace: "default", UID: types.UID(vtC05Str("p", owner))})
		p.Annotations[apiext.AnnotationReservationCurrentOwner] = string(data)
	}
	return p
}

// ---------------------------------------------------------------- history stream

// vtC05Lister is the ReservationLister the plugin entry points Reserve / Unreserve read the
// Reservation object from; it holds at most the object of the current operation.
type vtC05Lister struct{ r *schedulingv1alpha1.Reservation }

func (l *vtC05Lister) List(selector labels.Selector) ([]*schedulingv1alpha1.Reservation, error) {
	if l.r == nil {
		return nil, nil
	}
	return []*schedulingv1alpha1.Reservation{l.r}, nil
}

func (l *vtC05Lister) Get(name string) (*schedulingv1alpha1.Reservation, error) {
	if l.r == nil || l.r.Name != name {
		return nil, fmt.Errorf("reservation %q not found", name)
	}
	return l.r, nil
}

// ---- the scheduler-wide reservation handler (frameworkext/eventhandlers), registered the way
// cmd/koord-scheduler does (eventhandlers.AddScheduleEventHandler) on an informer factory that only
// records the handler registered on the Reservation informer.

type vtC05CaptureInformer struct {
	clientcache.SharedIndexInformer
	handlers []clientcache.ResourceEventHandler
}

func (c *vtC05CaptureInformer) AddEventHandler(h clientcache.ResourceEventHandler) (clientcache.ResourceEventHandlerRegistration, error) {
	c.handlers = append(c.handlers, h)
	return nil, nil
}

type vtC05CaptureRsvInformer struct {
	koordschedv1alpha1informers.ReservationInformer
	inf *vtC05CaptureInformer
}

func (c *vtC05CaptureRsvInformer) Informer() clientcache.SharedIndexInformer { return c.inf }

type vtC05CaptureV1alpha1 struct {
	koordschedv1alpha1informers.Interface
	inf *vtC05CaptureInformer
}

func (c *vtC05CaptureV1alpha1) Reservations() koordschedv1alpha1informers.ReservationInformer {
	return &vtC05CaptureRsvInformer{inf: c.inf}
}

type vtC05CaptureScheduling struct {
	koordschedinformers.Interface
	inf *vtC05CaptureInformer
}

func (c *vtC05CaptureScheduling) V1alpha1() koordschedv1alpha1informers.Interface {
	return &vtC05CaptureV1alpha1{inf: c.inf}
}

type vtC05CaptureFactory struct {
	koordinformers.SharedInformerFactory
	inf *vtC05CaptureInformer
}

func (c *vtC05CaptureFactory) Scheduling() koordschedinformers.Interface {
	return &vtC05CaptureScheduling{inf: c.inf}
}

var vtC05KubeInformers kubeinformers.SharedInformerFactory

// vtC05GlobalHandler returns the handler the scheduler registers on the Reservation informer, bound to a
// fresh fake scheduler (scheduler cache + queue); the reservation cache it deletes from is the one
// registered in frameworkext (SetReservationCache), as in production.
func vtC05GlobalHandler() clientcache.ResourceEventHandler {
	inf := &vtC05CaptureInformer{}
	sched := &scheduler.Scheduler{Profiles: profile.Map{}}
	eventhandlers.AddScheduleEventHandler(sched, frameworkext.NewFakeScheduler(), vtC05KubeInformers, &vtC05CaptureFactory{inf: inf}, nil)
	if len(inf.handlers) != 1 {
		panic(fmt.Sprintf("expected one handler on the reservation informer, got %d", len(inf.handlers)))
	}
	return inf.handlers[0]
}

// one informer event, delivered to both listeners: who = 0 plugin handler then scheduler-wide handler,
// 1 the other way round, 2 the scheduler-wide handler alone
func vtC05Deliver(who int64, plugin, global func()) {
	switch who {
	case 1:
		global()
		plugin()
	case 2:
		global()
	default:
		plugin()
		global()
	}
}

var vtC05Plugin *Plugin // only used for FilterNominateReservation (the allocate-once gate)

func vtC05SortedUIDs(m map[types.UID]struct{}) []int64 {
	out := make([]int64, 0, len(m))
	for u := range m {
		out = append(out, vtC05RsvID(string(u)))
	}
	sort.Slice(out, func(i, j int) bool { return out[i] < out[j] })
	return out
}

func vtC05DumpIdx(obs []int64, m map[string]map[types.UID]struct{}) []int64 {
	keys := make([]string, 0, len(m))
	for k := range m {
		keys = append(keys, k)
	}
	sort.Slice(keys, func(i, j int) bool { return vtC05ID("n", keys[i]) < vtC05ID("n", keys[j]) })
	obs = append(obs, int64(len(keys)))
	for _, k := range keys {
		us := vtC05SortedUIDs(m[k])
		obs = append(obs, vtC05ID("n", k), int64(len(us)))
		obs = append(obs, us...)
	}
	return obs
}

func vtC05SortedNodes(ns []string) []int64 {
	out := make([]int64, 0, len(ns))
	for _, n := range ns {
		out = append(out, vtC05ID("n", n))
	}
	sort.Slice(out, func(i, j int) bool { return out[i] < out[j] })
	return out
}

func vtC05Gate(rInfo *frameworkext.ReservationInfo) (pass bool) {
	defer func() {
		if e := recover(); e != nil {
			pass = true // got past the gate and failed later for lack of a scheduling cycle
		}
	}()
	probe := vtC05Pod(99, nil, 0, false, 0)
	st := vtC05Plugin.FilterNominateReservation(context.TODO(), framework.NewCycleState(), probe, rInfo, "no-such-node")
	// the allocate-once gate answers Unschedulable; past it the missing node answers UnschedulableAndUnresolvable
	return !(st != nil && st.Code() == fwktype.Unschedulable)
}

func vtC05Dump(obs []int64, code int64, c *reservationCache) []int64 {
	obs = append(obs, code)
	c.lock.RLock()
	uids := make([]string, 0, len(c.reservationInfos))
	for u := range c.reservationInfos {
		uids = append(uids, string(u))
	}
	sort.Slice(uids, func(i, j int) bool { return vtC05RsvID(uids[i]) < vtC05RsvID(uids[j]) })
	obs = append(obs, int64(len(uids)))
	for _, u := range uids {
		ri := c.reservationInfos[types.UID(u)]
		obs = append(obs, vtC05RsvID(u), vtC05ID("n", ri.GetNodeName()),
			vtB(ri.IsAvailable()), vtB(ri.ParseError != nil), vtB(ri.IsAllocateOnce()), vtB(ri.IsTerminating()),
			vtB(ri.IsMatchable()), vtB(vtC05Gate(ri)))
		pods := make([]string, 0, len(ri.AssignedPods))
		for pu := range ri.AssignedPods {
			pods = append(pods, string(pu))
		}
		sort.Slice(pods, func(i, j int) bool { return vtC05ID("p", pods[i]) < vtC05ID("p", pods[j]) })
		obs = append(obs, int64(len(pods)))
		for _, pu := range pods {
			obs = append(obs, vtC05ID("p", pu))
			obs = append(obs, vtC05Vals(ri.AssignedPods[types.UID(pu)].Requests, 0)...)
		}
		obs = append(obs, int64(len(ri.ResourceNames)))
		for _, n := range ri.ResourceNames {
			obs = append(obs, vtC05ResID(n))
		}
		obs = append(obs, vtC05Vals(ri.Allocated, 0)...)
		obs = append(obs, vtC05Vals(ri.Reserved, 0)...)
		obs = append(obs, vtC05Vals(ri.Allocatable, -1)...)
		switch ri.GetAllocatePolicy() {
		case schedulingv1alpha1.ReservationAllocatePolicyAligned:
			obs = append(obs, 1)
		case schedulingv1alpha1.ReservationAllocatePolicyRestricted:
			obs = append(obs, 2)
		default:
			obs = append(obs, 0)
		}
		al, rs := vtC05Vals(ri.Allocatable, 0), vtC05Vals(ri.Reserved, 0)
		for d := range al {
			obs = append(obs, al[d]-rs[d])
		}
	}
	obs = vtC05DumpIdx(obs, c.reservationsOnNode)
	obs = vtC05DumpIdx(obs, c.matchableOnNode)
	obs = vtC05DumpIdx(obs, c.allocatedOnNode)
	c.lock.RUnlock()
	for _, m := range []bool{true, false} {
		ns := vtC05SortedNodes(c.ListAllNodes(m))
		obs = append(obs, int64(len(ns)))
		obs = append(obs, ns...)
	}
	for n := int64(1); n <= 2; n++ {
		var visited []int64
		c.ForEachMatchableReservationOnNode(vtC05Str("n", n), func(ri *frameworkext.ReservationInfo) (bool, *fwktype.Status) {
			if ri == nil {
				visited = append(visited, -1)
			} else {
				visited = append(visited, vtC05RsvID(string(ri.UID())))
			}
			return true, nil
		})
		sort.Slice(visited, func(i, j int) bool { return visited[i] < visited[j] })
		obs = append(obs, int64(len(visited)))
		obs = append(obs, visited...)
	}
	return obs
}

var vtC05Snapshot *fakeSharedLister
var vtC05Nodes []*corev1.Node

// vtC05Schedule runs BeforePreFilter -> Filter -> NominateReservation -> Reserve for pod pu (owner label of
// reservation `target`, no reservation affinity) on `node`. The node snapshot holds the reserve pod of every
// cached reservation, as the scheduler cache would. Result: the nominated reservation (0 none); negative = a
// step of the cycle failed.
func vtC05Schedule(pl *Plugin, c *reservationCache, nm *nominator, pu int64, req corev1.ResourceList, node, target int64) int64 {
	pod := vtC05Pod(pu, req, 0, false, 0)
	pod.Labels = map[string]string{"app": fmt.Sprintf("x%d", target)}
	var pods []*corev1.Pod
	c.lock.RLock()
	for _, ri := range c.reservationInfos {
		if rp := ri.GetReservePod(); rp != nil && ri.GetNodeName() != "" {
			p := rp.DeepCopy()
			p.Spec.NodeName = ri.GetNodeName()
			pods = append(pods, p)
		}
	}
	c.lock.RUnlock()
	*vtC05Snapshot = *newFakeSharedLister(pods, vtC05Nodes, false)
	nodeName := vtC05Str("n", node)
	ctx := context.TODO()
	cs := framework.NewCycleState()
	if _, _, st := pl.BeforePreFilter(ctx, cs, pod); !st.IsSuccess() {
		return -1
	}
	nodeInfo, err := vtC05Snapshot.Get(nodeName)
	if err != nil || nodeInfo == nil || nodeInfo.Node() == nil {
		return -2
	}
	if st := pl.Filter(ctx, cs, pod, nodeInfo); !st.IsSuccess() {
		return -3
	}
	nominated, st := pl.NominateReservation(ctx, cs, pod, nodeName)
	if !st.IsSuccess() {
		return -4
	}
	st = pl.Reserve(ctx, cs, pod, nodeName)
	nm.DeleteNominatedReservePodOrReservation(pod) // what the next event of the pod does
	if !st.IsSuccess() {
		return -5
	}
	if nominated == nil {
		return 0
	}
	return vtC05RsvID(string(nominated.UID()))
}

func vtC05HistoryExec(in []int64) []int64 {
	rd := &vtC05Reader{in: in}
	c := newReservationCache(nil)
	nm := newNominator(nil, nil)
	rh := &reservationEventHandler{cache: c, rrNominator: nm}
	ph := &podEventHandler{cache: c, nominator: nm}
	lister := &vtC05Lister{}
	// the package's own test plugin (it is the framework's reservation nominator), run on the harness cache
	pl := vtC05Plugin
	pl.reservationCache, pl.nominator, pl.rLister = c, nm, lister
	// the scheduler-wide handler finds the reservation cache of every profile in the frameworkext registry
	frameworkext.ClearReservationCache()
	frameworkext.SetReservationCache(c, "koord-scheduler")
	gh := vtC05GlobalHandler()
	nops := int(rd.next())
	var obs []int64
	for i := 0; i < nops; i++ {
		var code int64
		switch rd.next() {
		case 1:
			rh.OnAdd(vtC05Reservation(rd.spec()), false)
		case 2:
			r := vtC05Reservation(rd.spec())
			rh.OnUpdate(r.DeepCopy(), r)
		case 3:
			rh.OnDelete(vtC05Reservation(rd.spec()))
		case 4:
			c.assumeReservation(vtC05Reservation(rd.spec()))
		case 5:
			u, n := rd.next(), rd.next()
			r := &schedulingv1alpha1.Reservation{ObjectMeta: metav1.ObjectMeta{Name: string(vtC05RsvUID(u)), UID: vtC05RsvUID(u)}}
			r.Status.NodeName = vtC05Str("n", n)
			c.DeleteReservation(r)
		case 6:
			ru, pu := rd.next(), rd.next()
			req := rd.res()
			err := c.assumePod(vtC05RsvUID(ru), vtC05Pod(pu, req, 0, false, 0))
			if err != nil {
				if strings.Contains(err.Error(), "terminating") {
					code = 2
				} else {
					code = 1
				}
			}
		case 7:
			ru, pu := rd.next(), rd.next()
			c.forgetPods(vtC05RsvUID(ru), []*corev1.Pod{vtC05Pod(pu, nil, 0, false, 0)})
		case 8:
			ph.OnAdd(rd.pev(), false)
		case 9:
			o := rd.pev()
			p := rd.pev()
			ph.OnUpdate(o, p)
		case 10:
			ph.OnDelete(rd.pev())
		case 11: // Plugin.Reserve of the reserve pod of a Reservation the lister has, on the node of the call
			r := vtC05Reservation(rd.spec())
			node := rd.next()
			lister.r = r
			cs := framework.NewCycleState()
			cs.Write(stateKey, &stateData{})
			if st := pl.Reserve(context.TODO(), cs, reservationutil.NewReservePod(r), vtC05Str("n", node)); !st.IsSuccess() {
				code = 3
			}
			lister.r = nil
		case 12: // Plugin.Unreserve of that reserve pod; found = 0: the lister no longer has the Reservation
			r := vtC05Reservation(rd.spec())
			node, found := rd.next(), rd.next()
			if found != 0 {
				lister.r = r
			}
			cs := framework.NewCycleState()
			cs.Write(stateKey, &stateData{})
			pl.Unreserve(context.TODO(), cs, reservationutil.NewReservePod(r), vtC05Str("n", node))
			lister.r = nil
		case 13: // one scheduling cycle of the plugin for a pod without reservation affinity on a node with room
			pu := rd.next()
			req := rd.res()
			node, target := rd.next(), rd.next()
			code = vtC05Schedule(pl, c, nm, pu, req, node, target)
		case 14: // informer Add event
			r := vtC05Reservation(rd.spec())
			who := rd.next()
			vtC05Deliver(who, func() { rh.OnAdd(r, false) }, func() { gh.OnAdd(r, false) })
		case 15: // informer Update event (old, new)
			o := vtC05Reservation(rd.spec())
			r := vtC05Reservation(rd.spec())
			who := rd.next()
			vtC05Deliver(who, func() { rh.OnUpdate(o, r) }, func() { gh.OnUpdate(o, r) })
		case 16: // informer Delete event, the object or a DeletedFinalStateUnknown tombstone
			r := vtC05Reservation(rd.spec())
			who, tomb := rd.next(), rd.next()
			var obj interface{} = r
			if tomb != 0 {
				obj = clientcache.DeletedFinalStateUnknown{Key: r.Name, Obj: r}
			}
			vtC05Deliver(who, func() { rh.OnDelete(obj) }, func() { gh.OnDelete(obj) })
		default:
			rd.pos = len(rd.in)
		}
		obs = vtC05Dump(obs, code, c)
	}
	return obs
}

// ---- generator

type vtC05GenState struct {
	r       *rand.Rand
	style   string
	nodeOf  map[int64]int64               // reservation uid -> node
	lastRsv map[int64]vtC05Spec           // last spec sent per reservation
	lastInf map[int64][]int64             // last reservation object delivered by an event (wire form)
	podReq  map[int64][]int64             // pod uid -> request (flat k v ...)
	podRsv  map[int64]int64               // pod uid -> reservation it was last attached to
	podNode map[int64]int64
	opPod   map[int64]bool // pod uid -> is a reservation-operating-mode pod
	reserved map[int64]bool // reservation uid -> Reserve'd by the plugin and not rolled back
}

func vtC05GenRes(r *rand.Rand, style string, allowPods bool, density int) []int64 {
	out := []int64{0}
	n := int64(0)
	for k := int64(1); k <= 5; k++ {
		if k == 5 && !allowPods {
			continue
		}
		if r.Intn(10) >= density {
			continue
		}
		var v int64
		switch style {
		case "large":
			v = vtQty(r, int64(1)<<40)
		default:
			v = int64(r.Intn(9))
		}
		if k == 5 {
			v = int64(r.Intn(4))
		}
		out = append(out, k, v)
		n++
	}
	out[0] = n
	return out
}

func (g *vtC05GenState) spec(uid int64, fresh bool) []int64 {
	r := g.r
	node, ok := g.nodeOf[uid]
	if !ok || (g.style == "unstable" && r.Intn(4) == 0) {
		node = int64(1 + r.Intn(2))
		if r.Intn(12) == 0 {
			node = 0
		}
		g.nodeOf[uid] = node
	}
	phase := int64(1)
	switch r.Intn(10) {
	case 0:
		phase = 0
	case 1:
		phase = 3
	case 2:
		phase = 2
	case 3:
		phase = 4
	}
	term := vtB(r.Intn(8) == 0)
	once := vtB(r.Intn(3) == 0)
	policy := int64(r.Intn(3))
	if r.Intn(2) == 0 {
		policy = 2
	}
	opts := int64(0)
	var optres []int64
	switch r.Intn(6) {
	case 0, 1:
		opts = 1
		for k := int64(1); k <= 5; k++ {
			if r.Intn(2) == 0 {
				optres = append(optres, k)
			}
		}
	case 2:
		if r.Intn(3) == 0 {
			opts = 2
		}
	}
	density := 6
	if g.style == "grow" && !fresh {
		density = 8
	} else if g.style == "grow" {
		density = 4
	}
	alloc := vtC05GenRes(r, g.style, true, density)
	if prev, ok := g.lastRsv[uid]; ok && !fresh && g.style != "grow" && r.Intn(3) != 0 {
		_ = prev // keep the shape of most updates: same dimensions, other amounts
	}
	reserved := []int64{0}
	if r.Intn(4) == 0 {
		reserved = vtC05GenRes(r, "small", false, 4)
	}
	ownbad := vtB(r.Intn(15) == 0)
	out := []int64{uid, node, phase, term, once, policy, opts, int64(len(optres))}
	out = append(out, optres...)
	out = append(out, alloc...)
	out = append(out, reserved...)
	out = append(out, ownbad)
	g.lastRsv[uid] = vtC05Spec{uid: uid}
	return out
}

func (g *vtC05GenState) req(pu int64) []int64 {
	if q, ok := g.podReq[pu]; ok && g.r.Intn(10) != 0 {
		return q
	}
	q := vtC05GenRes(g.r, g.style, false, 6)
	g.podReq[pu] = q
	return q
}

func (g *vtC05GenState) pev(pu int64, forceRsv int64) []int64 {
	r := g.r
	node := g.podNode[pu]
	if node == 0 || (g.style == "unstable" && r.Intn(4) == 0) {
		node = int64(r.Intn(3))
		g.podNode[pu] = node
	}
	rsv := forceRsv
	if rsv < 0 {
		rsv = g.podRsv[pu]
		if r.Intn(3) == 0 {
			rsv = int64(r.Intn(5)) // 0 = no annotation; may name an unknown reservation
			if g.style == "operating" && r.Intn(2) == 0 {
				rsv = 100 + int64(1+r.Intn(5))
			}
		}
	}
	g.podRsv[pu] = rsv
	done := vtB(r.Intn(8) == 0)
	out := []int64{pu, node, done, rsv}
	out = append(out, g.req(pu)...)
	isOp, ok := g.opPod[pu]
	if !ok {
		isOp = (g.style == "operating" && r.Intn(2) == 0) || r.Intn(12) == 0
		g.opPod[pu] = isOp
	}
	if !isOp {
		return append(out, 0)
	}
	opts := int64(0)
	var optres []int64
	switch r.Intn(6) {
	case 0, 1:
		opts = 1
		for k := int64(1); k <= 5; k++ {
			if r.Intn(2) == 0 {
				optres = append(optres, k)
			}
		}
	case 2:
		if r.Intn(3) == 0 {
			opts = 2
		}
	}
	reserved := []int64{0}
	if r.Intn(4) == 0 {
		reserved = vtC05GenRes(r, "small", false, 4)
	}
	owner := int64(0)
	if r.Intn(3) == 0 {
		owner = int64(1 + r.Intn(5))
	}
	out = append(out, 1, vtB(r.Intn(4) != 0), vtB(r.Intn(10) == 0), opts, int64(len(optres)))
	out = append(out, optres...)
	out = append(out, reserved...)
	return append(out, vtB(r.Intn(15) == 0), owner)
}

func vtC05HistoryGen(r *rand.Rand, i int) (string, []int64) {
	style := []string{"small", "small", "small", "large", "grow", "unstable", "once", "operating", "operating", "reserve", "reserve", "sched", "sched", "sched", "informer", "informer", "informer"}[r.Intn(17)]
	g := &vtC05GenState{r: r, style: style, nodeOf: map[int64]int64{}, lastRsv: map[int64]vtC05Spec{}, lastInf: map[int64][]int64{},
		podReq: map[int64][]int64{}, podRsv: map[int64]int64{}, podNode: map[int64]int64{}, opPod: map[int64]bool{}, reserved: map[int64]bool{}}
	nops := 2 + r.Intn(12)
	in := []int64{int64(nops)}
	nr := int64(1 + r.Intn(4))
	for j := 0; j < nops; j++ {
		ru := 1 + r.Int63n(nr)
		pu := 1 + r.Int63n(5)
		k := r.Intn(20)
		if style == "reserve" && r.Intn(2) == 0 {
			k = 20
		}
		if style == "sched" {
			if j == 0 {
				k = 0
			} else if r.Intn(2) == 0 {
				k = 21
			}
		}
		if j < 2 && r.Intn(3) != 0 && k < 20 && style != "sched" {
			k = r.Intn(2) // start with reservations most of the time
		}
		if style == "operating" {
			if j < 3 && r.Intn(2) == 0 {
				k = 14 + r.Intn(5) // pod events early: operating pods have to show up first
			}
			if k >= 10 && k < 14 && r.Intn(2) == 0 {
				ru = 100 + 1 + r.Int63n(5) // assume / forget against an operating pod
			}
		}
		// reservation events: through the plugin's handler alone, or the way the informer delivers them
		// (plugin handler and scheduler-wide handler, in either order)
		inf := style == "informer" || r.Intn(2) == 0
		who := func() int64 {
			switch x := r.Intn(20); {
			case x < 12:
				return 0
			case x < 17:
				return 1
			}
			return 2
		}
		if style == "informer" {
			if j == 0 {
				k = 0
			} else if k >= 14 && k < 20 && r.Intn(2) == 0 {
				k = 2 + r.Intn(5) // more reservation updates / deletes than pod events
			}
		}
		switch {
		case k < 2:
			_, known := g.nodeOf[ru]
			sp := g.spec(ru, !known)
			if style == "informer" && r.Intn(4) != 0 {
				sp[2] = 1 // available
			}
			if inf {
				in = append(in, 14)
				in = append(in, sp...)
				in = append(in, who())
			} else {
				in = append(in, 1)
				in = append(in, sp...)
			}
			g.lastInf[ru] = sp
		case k < 6:
			old, ok := g.lastInf[ru]
			if !ok || r.Intn(8) == 0 {
				old = g.spec(ru, false) // no previous object known / a stale or unrelated old object
			}
			sp := g.spec(ru, false)
			if style == "informer" && r.Intn(3) == 0 {
				sp[2] = int64(2 + r.Intn(2)) // Succeeded / Failed: the transition that removes the reservation
			}
			if inf {
				in = append(in, 15)
				in = append(in, old...)
				in = append(in, sp...)
				in = append(in, who())
			} else {
				in = append(in, 2)
				in = append(in, sp...)
			}
			g.lastInf[ru] = sp
		case k < 7:
			sp, ok := g.lastInf[ru]
			if !ok || r.Intn(3) == 0 {
				sp = g.spec(ru, false)
			}
			if inf {
				in = append(in, 16)
				in = append(in, sp...)
				in = append(in, who(), vtB(r.Intn(2) == 0))
				if sp[1] != 0 {
					delete(g.nodeOf, ru)
				}
				delete(g.lastInf, ru)
			} else {
				in = append(in, 3)
				in = append(in, sp...)
			}
		case k < 8:
			in = append(in, 4)
			in = append(in, g.spec(ru, false)...)
		case k < 10:
			node := g.nodeOf[ru]
			if style == "unstable" && r.Intn(3) == 0 {
				node = int64(r.Intn(3))
			}
			in = append(in, 5, ru, node)
			delete(g.nodeOf, ru)
			delete(g.lastInf, ru)
		case k < 13:
			in = append(in, 6, ru, pu)
			in = append(in, g.req(pu)...)
			g.podRsv[pu] = ru
		case k < 14:
			target := ru
			if r.Intn(2) == 0 && g.podRsv[pu] != 0 {
				target = g.podRsv[pu]
			}
			in = append(in, 7, target, pu)
		case k < 16:
			in = append(in, 8)
			in = append(in, g.pev(pu, ru)...)
		case k < 19:
			in = append(in, 9)
			in = append(in, g.pev(pu, -1)...)
			if rsv := g.podRsv[pu]; rsv != 0 && r.Intn(3) == 0 {
				delete(g.podReq, pu) // in-place resize: same reservation, other requests
				in = append(in, g.pev(pu, rsv)...)
			} else {
				in = append(in, g.pev(pu, -1)...)
			}
		case k < 20 && !(style == "reserve" || r.Intn(6) == 0):
			in = append(in, 10)
			in = append(in, g.pev(pu, -1)...)
		case k == 21 || (k < 20 && style == "sched" && r.Intn(3) == 0) || (k < 20 && style != "unstable" && r.Intn(10) == 0):
			// a scheduling cycle for a pod owned by reservation `target` on a node (usually the reservation's)
			if style == "unstable" {
				in = append(in, 10)
				in = append(in, g.pev(pu, -1)...)
				break
			}
			target := ru
			if style == "operating" && r.Intn(2) == 0 {
				target = 100 + 1 + r.Int63n(5)
			}
			node := g.nodeOf[target]
			if target > 100 {
				node = g.podNode[target-100]
			}
			if node == 0 || r.Intn(8) == 0 {
				node = int64(1 + r.Intn(2))
			}
			in = append(in, 13, pu)
			in = append(in, g.req(pu)...)
			in = append(in, node, target)
		default:
			// scheduling of the Reservation itself: Reserve on a node, possibly rolled back and retried elsewhere.
			// The lister's object is usually still pending (no status.nodeName).
			node, known := g.nodeOf[ru]
			if !known || node == 0 {
				node = int64(1 + r.Intn(2))
			}
			sp := g.spec(ru, !known)
			if r.Intn(4) != 0 {
				sp[1], sp[2] = 0, 0 // pending, not bound yet
			}
			if g.reserved[ru] && r.Intn(4) != 0 {
				in = append(in, 12)
				in = append(in, sp...)
				in = append(in, node, vtB(r.Intn(5) != 0))
				delete(g.nodeOf, ru)
				delete(g.lastInf, ru)
				g.reserved[ru] = false
			} else {
				in = append(in, 11)
				in = append(in, sp...)
				in = append(in, node)
				g.nodeOf[ru] = node
				g.reserved[ru] = true
			}
		}
	}
	return style, in
}

func TestVerifC05History(t *testing.T) {
	bigNode := func(name string) *corev1.Node {
		alloc := corev1.ResourceList{}
		for i := range vtC05Dims {
			alloc[vtC05Dims[i]] = *resource.NewQuantity(int64(1)<<50, resource.DecimalSI)
		}
		alloc[corev1.ResourceCPU] = *resource.NewQuantity(int64(1)<<45, resource.DecimalSI) // 2^45 cores: milli value still fits int64
		alloc[corev1.ResourcePods] = *resource.NewQuantity(100000, resource.DecimalSI)
		return &corev1.Node{ObjectMeta: metav1.ObjectMeta{Name: name}, Status: corev1.NodeStatus{Allocatable: alloc, Capacity: alloc}}
	}
	vtC05Nodes = []*corev1.Node{bigNode("n01"), bigNode("n02")}
	// the scheduler-wide handler logs every skipped / failed step at error level
	fs := flag.NewFlagSet("klog", flag.ContinueOnError)
	klog.InitFlags(fs)
	_ = fs.Set("logtostderr", "false")
	_ = fs.Set("alsologtostderr", "false")
	_ = fs.Set("stderrthreshold", "FATAL")
	klog.SetOutput(io.Discard)
	vtC05KubeInformers = kubeinformers.NewSharedInformerFactory(kubefake.NewSimpleClientset(), 0)
	suit := newPluginTestSuitWith(t, nil, vtC05Nodes)
	p, err := suit.pluginFactory()
	if err != nil {
		t.Fatal(err)
	}
	vtC05Plugin = p.(*Plugin)
	vtC05Snapshot = suit.fw.SnapshotSharedLister().(*fakeSharedLister)
	vtMain(t, "C05", vtC05HistoryGen, vtC05HistoryExec)
}

// ---------------------------------------------------------------- fits stream

func vtC05ReasonIDs(reasons []string) []int64 {
	out := make([]int64, 0, len(reasons))
	for _, s := range reasons {
		s = strings.TrimPrefix(s, reservationutil.ErrReasonPrefix)
		switch {
		case strings.HasPrefix(s, "Too many pods"):
			out = append(out, 100)
		case strings.HasPrefix(s, "Insufficient "):
			out = append(out, vtC05ResID(corev1.ResourceName(strings.TrimPrefix(s, "Insufficient "))))
		default:
			out = append(out, -3)
		}
	}
	return out
}

// input: policy nassigned (names) (allocatable) (allocated) (reserved) (request) (preemptible)
func vtC05FitsExec(in []int64) []int64 {
	rd := &vtC05Reader{in: in}
	policy, n := rd.next(), rd.next()
	var names []corev1.ResourceName
	for _, k := range rd.list() {
		names = append(names, vtC05ResName(k))
	}
	allocatable, allocated, reserved, req, pre := rd.res(), rd.res(), rd.res(), rd.res(), rd.res()
	rInfo := &frameworkext.ReservationInfo{
		Reservation: &schedulingv1alpha1.Reservation{
			ObjectMeta: metav1.ObjectMeta{Name: "r01", UID: "r01"},
			Spec:       schedulingv1alpha1.ReservationSpec{AllocatePolicy: vtC05Policies[int(policy)%len(vtC05Policies)]},
		},
		ResourceNames: names,
		Allocatable:   allocatable,
		Allocated:     allocated,
		Reserved:      reserved,
		AssignedPods:  map[types.UID]*frameworkext.PodRequirement{},
	}
	for j := int64(0); j < n; j++ {
		u := types.UID(fmt.Sprintf("q%04d", 1000+j))
		rInfo.AssignedPods[u] = &frameworkext.PodRequirement{UID: u}
	}
	pod := vtC05Pod(999, req, 1, false, 0)
	r1 := fitsReservation(req, rInfo, pre, false, nil, nil)
	_, r2 := fitsNodeAndReservation(nil, nil, nil, nil, nil, req, pre, pod, rInfo, nil, 0, false, true, nil, nil)
	ids1, ids2 := vtC05ReasonIDs(r1), vtC05ReasonIDs(r2)
	obs := []int64{int64(len(ids1))}
	obs = append(obs, ids1...)
	obs = append(obs, int64(len(ids2)))
	obs = append(obs, ids2...)
	if len(r1) == 0 {
		rInfo.AddAssignedPod(pod)
		obs = append(obs, vtC05Vals(rInfo.Allocated, 0)...)
		obs = append(obs, int64(rInfo.GetAllocatedPods()))
	}
	return obs
}

func vtC05FitsGen(r *rand.Rand, i int) (string, []int64) {
	style := []string{"small", "small", "tight", "large", "degenerate"}[r.Intn(5)]
	policy := int64(2)
	if r.Intn(5) == 0 {
		policy = int64(r.Intn(3))
	}
	n := int64(r.Intn(4))
	allocatable := vtC05GenRes(r, style, true, 7)
	// names: usually the allocatable keys or a subset, sometimes a name outside
	names := []int64{0}
	for j := 0; j < int(allocatable[0]); j++ {
		if r.Intn(5) != 0 {
			names = append(names, allocatable[1+2*j])
		}
	}
	if style == "degenerate" && r.Intn(2) == 0 {
		for k := int64(1); k <= 5; k++ {
			found := false
			for _, x := range names[1:] {
				if x == k {
					found = true
				}
			}
			if !found && r.Intn(3) == 0 {
				names = append(names, k)
			}
		}
		sort.Slice(names[1:], func(a, b int) bool { return names[1+a] < names[1+b] })
	}
	names[0] = int64(len(names) - 1)
	capOf := func(k int64) int64 {
		for j := 0; j < int(allocatable[0]); j++ {
			if allocatable[1+2*j] == k {
				return allocatable[2+2*j]
			}
		}
		return 0
	}
	gen := func(density int, allowPods bool) []int64 {
		out := []int64{0}
		for k := int64(1); k <= 5; k++ {
			if (k == 5 && !allowPods) || r.Intn(10) >= density {
				continue
			}
			c := capOf(k)
			var v int64
			switch style {
			case "tight":
				v = c/2 + int64(r.Intn(3)) - 1
			case "large":
				if c > 0 {
					v = r.Int63n(c + 1)
				}
			default:
				v = int64(r.Intn(6))
			}
			if v < 0 {
				v = 0
			}
			out = append(out, k, v)
			out[0]++
		}
		return out
	}
	allocated := gen(6, false)
	reserved := []int64{0}
	if r.Intn(3) == 0 {
		reserved = gen(4, false)
	}
	req := gen(7, false)
	pre := []int64{0}
	if r.Intn(3) == 0 {
		pre = gen(5, true)
	}
	in := []int64{policy, n}
	in = append(in, names...)
	in = append(in, allocatable...)
	in = append(in, allocated...)
	in = append(in, reserved...)
	in = append(in, req...)
	in = append(in, pre...)
	return style, in
}

func TestVerifC05Fits(t *testing.T) { vtMain(t, "C05", vtC05FitsGen, vtC05FitsExec) }

// ---------------------------------------------------------------- owners stream

func vtC05Ctrl(c int64) *bool {
	switch c {
	case 1:
		f := false
		return &f
	case 2:
		tr := true
		return &tr
	}
	return nil
}

// input: pod-uid name ns apiver (labels: n (k v)*) (ownerrefs: n (ns ctrl uid name kind apiver)*) (clauses)
// clause: objflag [uid name ns apiver]  ctrlflag [ns ctrl uid name kind apiver]  selflag [n (key op (vals))*]
func vtC05OwnersExec(in []int64) []int64 {
	rd := &vtC05Reader{in: in}
	pod := &corev1.Pod{}
	pod.UID = types.UID(vtC05Str("u", rd.next()))
	pod.Name = vtC05Str("name", rd.next())
	pod.Namespace = vtC05Str("ns", rd.next())
	pod.APIVersion = vtC05Str("v", rd.next())
	nl := int(rd.next())
	if nl > 0 {
		pod.Labels = map[string]string{}
	}
	for j := 0; j < nl; j++ {
		k, v := rd.next(), rd.next()
		pod.Labels[vtC05Str("k", k)] = vtC05Str("val", v)
	}
	no := int(rd.next())
	for j := 0; j < no; j++ {
		_ = rd.next()
		ctrl, uid, name, kind, av := rd.next(), rd.next(), rd.next(), rd.next(), rd.next()
		pod.OwnerReferences = append(pod.OwnerReferences, metav1.OwnerReference{
			Controller: vtC05Ctrl(ctrl), UID: types.UID(vtC05Str("u", uid)), Name: vtC05Str("name", name),
			Kind: vtC05Str("Kind", kind), APIVersion: vtC05Str("v", av),
		})
	}
	var owners []schedulingv1alpha1.ReservationOwner
	nc := int(rd.next())
	for j := 0; j < nc; j++ {
		var o schedulingv1alpha1.ReservationOwner
		if rd.next() != 0 {
			o.Object = &corev1.ObjectReference{UID: types.UID(vtC05Str("u", rd.next())), Name: vtC05Str("name", rd.next()),
				Namespace: vtC05Str("ns", rd.next()), APIVersion: vtC05Str("v", rd.next())}
		}
		if rd.next() != 0 {
			ns, ctrl, uid, name, kind, av := rd.next(), rd.next(), rd.next(), rd.next(), rd.next(), rd.next()
			o.Controller = &schedulingv1alpha1.ReservationControllerReference{
				Namespace: vtC05Str("ns", ns),
				OwnerReference: metav1.OwnerReference{Controller: vtC05Ctrl(ctrl), UID: types.UID(vtC05Str("u", uid)),
					Name: vtC05Str("name", name), Kind: vtC05Str("Kind", kind), APIVersion: vtC05Str("v", av)},
			}
		}
		if rd.next() != 0 {
			sel := &metav1.LabelSelector{}
			nq := int(rd.next())
			for q := 0; q < nq; q++ {
				key, op := rd.next(), rd.next()
				vals := rd.list()
				var svals []string
				for _, v := range vals {
					svals = append(svals, vtC05Str("val", v))
				}
				switch op {
				case 0:
					if sel.MatchLabels == nil {
						sel.MatchLabels = map[string]string{}
					}
					if len(svals) > 0 {
						sel.MatchLabels[vtC05Str("k", key)] = svals[0]
					}
				case 1:
					sel.MatchExpressions = append(sel.MatchExpressions, metav1.LabelSelectorRequirement{Key: vtC05Str("k", key), Operator: metav1.LabelSelectorOpIn, Values: svals})
				case 2:
					sel.MatchExpressions = append(sel.MatchExpressions, metav1.LabelSelectorRequirement{Key: vtC05Str("k", key), Operator: metav1.LabelSelectorOpNotIn, Values: svals})
				case 3:
					sel.MatchExpressions = append(sel.MatchExpressions, metav1.LabelSelectorRequirement{Key: vtC05Str("k", key), Operator: metav1.LabelSelectorOpExists, Values: svals})
				default:
					sel.MatchExpressions = append(sel.MatchExpressions, metav1.LabelSelectorRequirement{Key: vtC05Str("k", key), Operator: metav1.LabelSelectorOpDoesNotExist, Values: svals})
				}
			}
			o.LabelSelector = sel
		}
		owners = append(owners, o)
	}
	mk := func(ow []schedulingv1alpha1.ReservationOwner) *schedulingv1alpha1.Reservation {
		return &schedulingv1alpha1.Reservation{
			ObjectMeta: metav1.ObjectMeta{Name: "r01", UID: "r01"},
			Spec:       schedulingv1alpha1.ReservationSpec{Template: &corev1.PodTemplateSpec{}, Owners: ow},
			Status:     schedulingv1alpha1.ReservationStatus{Phase: schedulingv1alpha1.ReservationAvailable, NodeName: "n01"},
		}
	}
	ri := frameworkext.NewReservationInfo(mk(owners))
	m1 := ri.MatchOwners(pod)
	ri2 := frameworkext.NewReservationInfo(mk(nil))
	ri2.UpdateReservation(mk(owners))
	m2 := ri2.MatchOwners(pod)
	return []int64{vtB(m1), vtB(m2), vtB(ri.ParseError != nil)}
}

func vtC05OwnersGen(r *rand.Rand, i int) (string, []int64) {
	style := []string{"mixed", "mixed", "labels", "refs", "degenerate"}[r.Intn(5)]
	id := func() int64 { return int64(1 + r.Intn(2)) }          // small universe so that matches happen
	opt := func() int64 { return int64(r.Intn(3)) }             // 0 = field not set
	in := []int64{id(), id(), id(), int64(r.Intn(2))}           // pod apiVersion is usually empty
	nl := r.Intn(4)
	in = append(in, int64(nl))
	for k := 1; k <= nl; k++ {
		in = append(in, int64(k), id())
	}
	no := r.Intn(3)
	in = append(in, int64(no))
	for j := 0; j < no; j++ {
		in = append(in, 0, int64(r.Intn(3)), id(), id(), id(), id())
	}
	nc := r.Intn(4)
	if style == "degenerate" && r.Intn(3) == 0 {
		nc = 0
	}
	in = append(in, int64(nc))
	for j := 0; j < nc; j++ {
		useObj := style != "labels" && r.Intn(2) == 0
		useCtrl := style != "labels" && r.Intn(2) == 0
		useSel := style != "refs" && r.Intn(3) != 0
		if useObj {
			in = append(in, 1, opt(), opt(), opt(), int64(0))
			if r.Intn(6) == 0 {
				in[len(in)-1] = int64(1)
			}
		} else {
			in = append(in, 0)
		}
		if useCtrl {
			in = append(in, 1, opt(), int64(r.Intn(3)), opt(), opt(), opt(), opt())
		} else {
			in = append(in, 0)
		}
		if useSel {
			nq := r.Intn(3)
			in = append(in, 1, int64(nq))
			usedKeys := map[int64]bool{}
			for q := 0; q < nq; q++ {
				key := int64(1 + r.Intn(4))
				op := int64(r.Intn(5))
				if op == 0 && usedKeys[key] {
					op = 1
				}
				if op == 0 {
					usedKeys[key] = true
				}
				var vals []int64
				switch op {
				case 0:
					vals = []int64{id()}
				case 1, 2:
					for v := int64(1); v <= 2; v++ {
						if r.Intn(2) == 0 {
							vals = append(vals, v)
						}
					}
					if len(vals) == 0 && !(style == "degenerate" && r.Intn(2) == 0) {
						vals = []int64{id()}
					}
				default:
					if style == "degenerate" && r.Intn(4) == 0 {
						vals = []int64{id()}
					}
				}
				in = append(in, key, op, int64(len(vals)))
				in = append(in, vals...)
			}
		} else {
			in = append(in, 0)
		}
	}
	return style, in
}

func TestVerifC05Owners(t *testing.T) { vtMain(t, "C05", vtC05OwnersGen, vtC05OwnersExec) }
