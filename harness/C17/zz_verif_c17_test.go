//go:build verif

package migration

// C17 correspondence harness: the REAL Reconciler.Reconcile (controller.go) with the REAL
// reservation interpreter (reservation/interpreter.go) on a controller-runtime fake client.
// Every API write of the controller goes through an interceptor that (a) injects the failures
// chosen by the input and (b) records reservation creations / deletions; evictions are recorded
// by a recording evictor interpreter. Every recorded effect is stamped with the reservation and
// pod state read from the API at that instant.
//
// input  : direct paused ttl pvalid initphase rref0 createdBy tmpl nops, then nops records of 12 ints
//          direct = 0 Spec.Mode ReservationFirst, 1 EvictDirectly, 2 Spec.Mode "" with DefaultJobMode ReservationFirst,
//                   3 Spec.Mode "" with DefaultJobMode EvictDirectly (odd = the job evicts directly)
//          tmpl = user-supplied Spec.ReservationOptions.Template: 0 none; else o*4 + a with
//                 a = 1 AllocateOnce nil, 2 true, 3 false; o = 0 no Owners, 1 a controller owner, 2 an object owner
//          kind a1..a11:
//            0 Reconcile  a1 = fault mask (bit k set: the k-th API write of this reconcile fails)
//            1 SetRes     exists label phase node sched expired owner bound needp pdone once(0 false 1 true 2 nil)
//            2 SetPod     exists uid node sched ctrl
//            3 SetBoundPod state(0 missing 1 not ready 2 ready)
//            4 Tick       seconds
//            5 Restart    (new Reconciler: empty assumed cache, freshly listed informer)
//            6 Stale      a1 = k: the next Reconcile reads the job as it was k job-writes ago (lagging informer)
//            7 Sched      a1 = node: the scheduler schedules the pending Reservation (reservationutil.SetReservationAvailable)
//            8 Alloc      a1 = uid: a pod is allocated from the available Reservation, the way the reservation
//                         controller's syncStatus records it (CurrentOwners; Succeeded iff IsReservationAllocateOnce)
// observable: per op   nEff, nEff x (kind ok + 10 stamp ints + phase), 14 job ints, 4 reservation ints
//          effect kinds: 1 Evict, 2 CreateReservation, 3 DeleteReservation (stamped), 4 successful write of the
//          job (Update / Status().Update; zero stamp, phase = the phase it persists); for an Evict the last int
//          is the UID of the pod object handed to the evictor
// decoys (never touched by a correct controller): a pod with the target's name in another namespace, sitting
// on node n02, and a consumed, expired Reservation under another name

import (
	"context"
	"fmt"
	"math/rand"
	"strconv"
	"testing"
	"time"

	corev1 "k8s.io/api/core/v1"
	metav1 "k8s.io/apimachinery/pkg/apis/meta/v1"
	"k8s.io/apimachinery/pkg/runtime"
	"k8s.io/apimachinery/pkg/types"
	"k8s.io/client-go/tools/record"
	fakeclock "k8s.io/utils/clock/testing"
	ctrl "sigs.k8s.io/controller-runtime"
	"sigs.k8s.io/controller-runtime/pkg/client"
	"sigs.k8s.io/controller-runtime/pkg/client/fake"
	"sigs.k8s.io/controller-runtime/pkg/client/interceptor"
	"sigs.k8s.io/controller-runtime/pkg/reconcile"

	"github.com/koordinator-sh/koordinator/apis/extension"
	sev1alpha1 "github.com/koordinator-sh/koordinator/apis/scheduling/v1alpha1"
	deschedulerconfig "github.com/koordinator-sh/koordinator/pkg/descheduler/apis/config"
	"github.com/koordinator-sh/koordinator/pkg/descheduler/controllers/migration/reservation"
	reservationutil "github.com/koordinator-sh/koordinator/pkg/util/reservation"
)

const (
	vtC17JobName = "job"
	vtC17JobUID  = "juid"
	vtC17NS      = "default"
	vtC17Pod     = "pod"
	vtC17BP      = "bp"
	vtC17AnnNeed = "verif/needp"
	vtC17AnnDone = "verif/pdone"
	vtC17Width   = 12
	vtC17Hdr     = 9
)

var (
	vtC17Scheme   *runtime.Scheme
	vtC17Recorder record.EventRecorderLogger
	vtC17Base     = time.Unix(1700000000, 0)
	vtC17ResPhase = []sev1alpha1.ReservationPhase{"", sev1alpha1.ReservationPending, sev1alpha1.ReservationAvailable,
		sev1alpha1.ReservationSucceeded, sev1alpha1.ReservationWaiting, sev1alpha1.ReservationFailed}
	vtC17JobPhase = []sev1alpha1.PodMigrationJobPhase{"", sev1alpha1.PodMigrationJobPending, sev1alpha1.PodMigrationJobRunning,
		sev1alpha1.PodMigrationJobSucceeded, sev1alpha1.PodMigrationJobFailed, sev1alpha1.PodMigrationJobAborted}
	vtC17Status = []string{"", "ReservationCreated", "ReservationScheduled", "Preemption", "Eviction", "PodScheduled",
		"PodBoundReservation", "BoundPodReady", "ReservationBound", "Complete"}
	vtC17Reason = []string{"", "Timeout", "InvalidPodRef", "MissingPod", "MissingReservation", "ReservationExpired",
		"ForbiddenMigratePod", "Unschedulable", "FailedCreateReservation", "Evicting", "EvictComplete",
		"WaitForPodBindReservation", "WaitForBoundPodReady"}
	vtC17Conds = []sev1alpha1.PodMigrationJobConditionType{
		sev1alpha1.PodMigrationJobConditionReservationCreated, sev1alpha1.PodMigrationJobConditionReservationScheduled,
		sev1alpha1.PodMigrationJobConditionEviction, sev1alpha1.PodMigrationJobConditionPodScheduled,
		sev1alpha1.PodMigrationJobConditionReservationPodBoundReservation, sev1alpha1.PodMigrationJobConditionBoundPodReady,
		sev1alpha1.PodMigrationJobConditionReservationBound}
)

func vtC17Init() {
	if vtC17Scheme != nil {
		return
	}
	vtC17Scheme = runtime.NewScheme()
	_ = sev1alpha1.AddToScheme(vtC17Scheme)
	_ = corev1.AddToScheme(vtC17Scheme) // a small scheme: the fake tracker rebuilds a REST mapper over all known types on every write
	vtC17Recorder = record.NewBroadcaster().NewRecorder(vtC17Scheme, corev1.EventSource{Component: Name})
}

func vtC17Name(prefix string, id int64) string {
	if id == 0 {
		return ""
	}
	return fmt.Sprintf("%s%02d", prefix, id)
}

func vtC17ID(s string) int64 {
	if len(s) < 2 {
		return 0
	}
	v, err := strconv.ParseInt(s[1:], 10, 64)
	if err != nil {
		return -1
	}
	return v
}

func vtC17Index[T comparable](tab []T, v T) int64 {
	for i, x := range tab {
		if x == v {
			return int64(i)
		}
	}
	return 99
}

// ---- the interpreter seen by the controller: the real one, plus a Preemption extension whose
// answers are part of the environment (annotations on the Reservation object)

type vtC17Mgr struct {
	ctrl.Manager
	c client.Client
}

func (m vtC17Mgr) GetClient() client.Client   { return m.c }
func (m vtC17Mgr) GetAPIReader() client.Reader { return m.c }

type vtC17Obj struct{ reservation.Object }

func (o vtC17Obj) NeedPreemption() bool { return o.GetAnnotations()[vtC17AnnNeed] == "1" }

type vtC17Preempt struct{}

func (vtC17Preempt) Preempt(ctx context.Context, job *sev1alpha1.PodMigrationJob, obj reservation.Object) (bool, reconcile.Result, error) {
	if obj.GetAnnotations()[vtC17AnnDone] == "1" {
		return true, reconcile.Result{}, nil
	}
	return false, reconcile.Result{RequeueAfter: defaultRequeueAfter}, nil
}

type vtC17Interp struct{ reservation.Interpreter }

func (v vtC17Interp) Preemption() reservation.Preemption { return vtC17Preempt{} }
func (v vtC17Interp) GetReservation(ctx context.Context, ref *corev1.ObjectReference) (reservation.Object, error) {
	o, err := v.Interpreter.GetReservation(ctx, ref)
	if err != nil {
		return o, err
	}
	return vtC17Obj{o}, nil
}

// ---- world of one case

type vtC17World struct {
	base    client.WithWatch // direct access (environment, observation)
	faulty  client.WithWatch // what the controller sees
	clk     *fakeclock.FakeClock
	rec     *Reconciler
	gen     int
	defMode sev1alpha1.PodMigrationJobMode
	mask    int64
	nwrite  int
	effects []int64
	neff    int64
	// versions of the job the informer can still serve (oldest first; last = current) and the lag of the
	// next reconcile's read
	snaps []*sev1alpha1.PodMigrationJob
	lag   int64
}

func (w *vtC17World) snapshot(obj client.Object) {
	if job, ok := obj.(*sev1alpha1.PodMigrationJob); ok {
		w.snaps = append(w.snaps, job.DeepCopy())
		// a successful write of the job: what is persisted is read back from the API, not taken from the
		// controller's in-memory object
		cur := &sev1alpha1.PodMigrationJob{}
		ph := int64(98)
		if err := w.base.Get(context.TODO(), types.NamespacedName{Name: vtC17JobName}, cur); err == nil {
			ph = vtC17Index(vtC17JobPhase, cur.Status.Phase)
		}
		w.record(4, true, make([]int64, 10), ph)
	}
}

func (w *vtC17World) fail() bool {
	k := w.nwrite
	w.nwrite++
	return k < 16 && (w.mask>>uint(k))&1 == 1
}

func (w *vtC17World) getRes() *sev1alpha1.Reservation {
	r := &sev1alpha1.Reservation{}
	if err := w.base.Get(context.TODO(), types.NamespacedName{Name: vtC17JobUID}, r); err != nil {
		return nil
	}
	return r
}

func (w *vtC17World) getPod(name string) *corev1.Pod {
	p := &corev1.Pod{}
	if err := w.base.Get(context.TODO(), types.NamespacedName{Namespace: vtC17NS, Name: name}, p); err != nil {
		return nil
	}
	return p
}

func vtC17ResSched(r *sev1alpha1.Reservation) (sched int64, expired int64) {
	for _, c := range r.Status.Conditions {
		if c.Type == sev1alpha1.ReservationConditionScheduled {
			switch {
			case c.Reason == sev1alpha1.ReasonReservationScheduled && c.Status == sev1alpha1.ConditionStatusTrue:
				sched = 1
			case c.Reason == sev1alpha1.ReasonReservationUnschedulable:
				sched = 2
			case c.Reason == sev1alpha1.ReasonReservationScheduled:
				sched = 3
			default:
				sched = 9
			}
		}
		if c.Type == sev1alpha1.ReservationConditionReady && c.Reason == sev1alpha1.ReasonReservationExpired {
			expired = 1
		}
	}
	return
}

// stamp = rexists rphase rnode rsched rexpired rbound needp pdone poduid podnode
func (w *vtC17World) stamp() []int64 {
	st := make([]int64, 10)
	if r := w.getRes(); r != nil {
		st[0] = 1
		st[1] = vtC17Index(vtC17ResPhase, r.Status.Phase)
		st[2] = vtC17ID(r.Status.NodeName)
		st[3], st[4] = vtC17ResSched(r)
		if len(r.Status.CurrentOwners) > 0 {
			st[5] = vtC17ID(string(r.Status.CurrentOwners[0].UID))
		}
		st[6] = vtB(r.Annotations[vtC17AnnNeed] == "1")
		st[7] = vtB(r.Annotations[vtC17AnnDone] == "1")
	}
	if p := w.getPod(vtC17Pod); p != nil {
		st[8] = vtC17ID(string(p.UID))
		st[9] = vtC17ID(p.Spec.NodeName)
	}
	return st
}

func (w *vtC17World) record(kind int64, ok bool, st []int64, ph int64) {
	w.neff++
	w.effects = append(w.effects, kind, vtB(ok))
	w.effects = append(w.effects, st...)
	w.effects = append(w.effects, ph)
}

// recording evictor interpreter
func (w *vtC17World) Evict(ctx context.Context, job *sev1alpha1.PodMigrationJob, pod *corev1.Pod) error {
	st := w.stamp()
	who := int64(-1)
	if pod != nil {
		who = vtC17ID(string(pod.UID))
		if pod.Namespace != vtC17NS || pod.Name != vtC17Pod {
			who = -3 // some other pod
		}
	}
	if w.fail() {
		w.record(1, false, st, who)
		return fmt.Errorf("verif: injected eviction failure")
	}
	w.record(1, true, st, who)
	return nil
}

var errVtC17 = fmt.Errorf("verif: injected API write failure")

func (w *vtC17World) funcs() interceptor.Funcs {
	return interceptor.Funcs{
		Create: func(ctx context.Context, c client.WithWatch, obj client.Object, opts ...client.CreateOption) error {
			_, isRes := obj.(*sev1alpha1.Reservation)
			st := w.stamp()
			if w.fail() {
				if isRes {
					w.record(2, false, st, 0)
				}
				return errVtC17
			}
			err := c.Create(ctx, obj, opts...)
			if isRes {
				w.record(2, err == nil, st, 0)
			}
			return err
		},
		Delete: func(ctx context.Context, c client.WithWatch, obj client.Object, opts ...client.DeleteOption) error {
			_, isRes := obj.(*sev1alpha1.Reservation)
			st := w.stamp()
			if w.fail() {
				if isRes {
					w.record(3, false, st, 0)
				}
				return errVtC17
			}
			err := c.Delete(ctx, obj, opts...)
			if isRes {
				w.record(3, err == nil, st, 0)
			}
			return err
		},
		Get: func(ctx context.Context, c client.WithWatch, key client.ObjectKey, obj client.Object, opts ...client.GetOption) error {
			if job, ok := obj.(*sev1alpha1.PodMigrationJob); ok && w.lag > 0 && len(w.snaps) > 1 {
				k := int(w.lag)
				if k > len(w.snaps)-1 {
					k = len(w.snaps) - 1
				}
				w.snaps[len(w.snaps)-1-k].DeepCopyInto(job)
				return nil
			}
			return c.Get(ctx, key, obj, opts...)
		},
		Update: func(ctx context.Context, c client.WithWatch, obj client.Object, opts ...client.UpdateOption) error {
			if w.fail() {
				return errVtC17
			}
			err := c.Update(ctx, obj, opts...)
			if err == nil {
				w.snapshot(obj)
			}
			return err
		},
		SubResourceUpdate: func(ctx context.Context, c client.Client, sub string, obj client.Object, opts ...client.SubResourceUpdateOption) error {
			if w.fail() {
				return errVtC17
			}
			err := c.SubResource(sub).Update(ctx, obj, opts...)
			if err == nil {
				w.snapshot(obj)
			}
			return err
		},
	}
}

func (w *vtC17World) newReconciler() {
	args := &deschedulerconfig.MigrationControllerArgs{
		DefaultJobMode: string(w.defMode),
	}
	r := &Reconciler{
		Client:                 w.faulty,
		args:                   args,
		eventRecorder:          record.NewEventRecorderAdapter(vtC17Recorder),
		reservationInterpreter: vtC17Interp{reservation.NewInterpreter(vtC17Mgr{c: w.faulty})},
		evictorInterpreter:     w,
		assumedCache:           newAssumedCache(),
		clock:                  w.clk,
		reconcilerUID:          types.UID(fmt.Sprintf("gen%d", w.gen)),
	}
	r.initObjectLimiters()
	w.rec = r
}

func (w *vtC17World) setRes(a []int64) {
	ctx := context.TODO()
	cur := w.getRes()
	if a[0] == 0 {
		if cur != nil {
			_ = w.base.Delete(ctx, cur)
		}
		return
	}
	r := cur
	if r == nil {
		r = &sev1alpha1.Reservation{ObjectMeta: metav1.ObjectMeta{Name: vtC17JobUID}}
	}
	r.Labels = map[string]string{}
	if a[1] != 0 {
		r.Labels[extension.LabelReservationOrder] = "1"
	}
	r.Annotations = map[string]string{}
	if a[8] != 0 {
		r.Annotations[vtC17AnnNeed] = "1"
	}
	if a[9] != 0 {
		r.Annotations[vtC17AnnDone] = "1"
	}
	switch a[10] {
	case 0:
		fa := false
		r.Spec.AllocateOnce = &fa
	case 1:
		tr := true
		r.Spec.AllocateOnce = &tr
	default:
		r.Spec.AllocateOnce = nil
	}
	r.Spec.Owners = nil
	switch a[6] {
	case 1:
		tr := true
		r.Spec.Owners = []sev1alpha1.ReservationOwner{{Controller: &sev1alpha1.ReservationControllerReference{
			OwnerReference: metav1.OwnerReference{Kind: "ReplicaSet", Name: "rs", UID: "rsuid", Controller: &tr}, Namespace: vtC17NS}}}
	case 2:
		r.Spec.Owners = []sev1alpha1.ReservationOwner{{Object: &corev1.ObjectReference{Kind: "Pod", Namespace: vtC17NS, Name: vtC17Pod}}}
	}
	r.Status = sev1alpha1.ReservationStatus{}
	if a[2] >= 0 && int(a[2]) < len(vtC17ResPhase) {
		r.Status.Phase = vtC17ResPhase[a[2]]
	}
	r.Status.NodeName = vtC17Name("n", a[3])
	switch a[4] {
	case 1:
		r.Status.Conditions = append(r.Status.Conditions, sev1alpha1.ReservationCondition{Type: sev1alpha1.ReservationConditionScheduled,
			Status: sev1alpha1.ConditionStatusTrue, Reason: sev1alpha1.ReasonReservationScheduled})
	case 2:
		r.Status.Conditions = append(r.Status.Conditions, sev1alpha1.ReservationCondition{Type: sev1alpha1.ReservationConditionScheduled,
			Status: sev1alpha1.ConditionStatusFalse, Reason: sev1alpha1.ReasonReservationUnschedulable, Message: "unschedulable"})
	case 3:
		r.Status.Conditions = append(r.Status.Conditions, sev1alpha1.ReservationCondition{Type: sev1alpha1.ReservationConditionScheduled,
			Status: sev1alpha1.ConditionStatusFalse, Reason: sev1alpha1.ReasonReservationScheduled})
	}
	if a[5] != 0 {
		r.Status.Conditions = append(r.Status.Conditions, sev1alpha1.ReservationCondition{Type: sev1alpha1.ReservationConditionReady,
			Status: sev1alpha1.ConditionStatusFalse, Reason: sev1alpha1.ReasonReservationExpired})
	}
	if a[7] != 0 {
		r.Status.CurrentOwners = []corev1.ObjectReference{{Namespace: vtC17NS, Name: vtC17BP, UID: types.UID(vtC17Name("u", a[7]))}}
	}
	var err error
	if cur == nil {
		err = w.base.Create(ctx, r)
	} else {
		err = w.base.Update(ctx, r)
	}
	if err != nil {
		panic(err)
	}
}

// the scheduler's two status transitions on the Reservation object, in place
func (w *vtC17World) sched(node int64) {
	r := w.getRes()
	if r == nil || node <= 0 || !(r.Status.Phase == "" || r.Status.Phase == sev1alpha1.ReservationPending) {
		return
	}
	if err := reservationutil.SetReservationAvailable(r, vtC17Name("n", node)); err != nil {
		panic(err)
	}
	if err := w.base.Update(context.TODO(), r); err != nil {
		panic(err)
	}
}

func (w *vtC17World) alloc(uid int64) {
	r := w.getRes()
	if r == nil || uid <= 0 || r.Status.Phase != sev1alpha1.ReservationAvailable {
		return
	}
	// reservation controller, syncStatus: record the owners, and an allocate-once Reservation is consumed
	r.Status.CurrentOwners = []corev1.ObjectReference{{Namespace: vtC17NS, Name: vtC17BP, UID: types.UID(vtC17Name("u", uid))}}
	if extension.IsReservationAllocateOnce(r) {
		reservationutil.SetReservationSucceeded(r)
	}
	if err := w.base.Update(context.TODO(), r); err != nil {
		panic(err)
	}
}

func (w *vtC17World) replacePod(name string, p *corev1.Pod) {
	ctx := context.TODO()
	if cur := w.getPod(name); cur != nil {
		if err := w.base.Delete(ctx, cur); err != nil {
			panic(err)
		}
	}
	if p != nil {
		if err := w.base.Create(ctx, p); err != nil {
			panic(err)
		}
	}
}

func (w *vtC17World) setPod(a []int64) {
	if a[0] == 0 {
		w.replacePod(vtC17Pod, nil)
		return
	}
	p := &corev1.Pod{ObjectMeta: metav1.ObjectMeta{Namespace: vtC17NS, Name: vtC17Pod, UID: types.UID(vtC17Name("u", a[1]))}}
	p.Spec.NodeName = vtC17Name("n", a[2])
	p.Status.Phase = corev1.PodRunning
	switch a[3] {
	case 1:
		p.Status.Phase = corev1.PodPending
		p.Status.Conditions = []corev1.PodCondition{{Type: corev1.PodScheduled, Status: corev1.ConditionFalse, Reason: "Unschedulable"}}
	case 2:
		p.Status.Conditions = []corev1.PodCondition{{Type: corev1.PodScheduled, Status: corev1.ConditionTrue}}
	}
	if a[4] != 0 {
		tr := true
		p.OwnerReferences = []metav1.OwnerReference{{APIVersion: "apps/v1", Kind: "ReplicaSet", Name: "rs", UID: "rsuid", Controller: &tr}}
	}
	w.replacePod(vtC17Pod, p)
}

func (w *vtC17World) setBP(state int64) {
	if state == 0 {
		w.replacePod(vtC17BP, nil)
		return
	}
	p := &corev1.Pod{ObjectMeta: metav1.ObjectMeta{Namespace: vtC17NS, Name: vtC17BP, UID: "bpuid"}}
	p.Status.Phase = corev1.PodRunning
	if state == 2 {
		p.Status.Conditions = []corev1.PodCondition{{Type: corev1.PodReady, Status: corev1.ConditionTrue}}
	}
	w.replacePod(vtC17BP, p)
}

func (w *vtC17World) summary() []int64 {
	job := &sev1alpha1.PodMigrationJob{}
	if err := w.base.Get(context.TODO(), types.NamespacedName{Name: vtC17JobName}, job); err != nil {
		panic(err)
	}
	out := []int64{
		vtC17Index(vtC17JobPhase, job.Status.Phase),
		vtC17Index(vtC17Status, job.Status.Status),
		vtC17Index(vtC17Reason, job.Status.Reason),
		vtC17ID(job.Status.NodeName),
		0,
		vtC17ID(string(job.Spec.PodRef.UID)),
		vtB(job.Spec.ReservationOptions != nil && job.Spec.ReservationOptions.ReservationRef != nil),
	}
	if job.Status.PodRef != nil {
		out[4] = vtC17ID(string(job.Status.PodRef.UID))
		if out[4] == 0 {
			out[4] = -2 // a reference without UID
		}
	}
	for _, ct := range vtC17Conds {
		v := int64(0)
		n := 0
		for _, c := range job.Status.Conditions {
			if c.Type == ct {
				n++
				switch c.Status {
				case sev1alpha1.PodMigrationJobConditionStatusTrue:
					v = 1
				case sev1alpha1.PodMigrationJobConditionStatusFalse:
					v = 2
				default:
					v = 3
				}
			}
		}
		if n > 1 {
			v = 4
		}
		out = append(out, v)
	}
	// reservation as stored in the API: exists, has the order label, owner kind, allocate-once
	env := []int64{0, 0, 0, 0}
	if r := w.getRes(); r != nil {
		env[0] = 1
		env[3] = vtB(extension.IsReservationAllocateOnce(r))
		_, has := r.Labels[extension.LabelReservationOrder]
		env[1] = vtB(has)
		if len(r.Spec.Owners) > 0 {
			o := r.Spec.Owners[0]
			switch {
			case o.Object != nil && o.Controller == nil && o.LabelSelector == nil:
				env[2] = 2
			case o.Controller != nil:
				env[2] = 1
			default:
				env[2] = 3
			}
		}
	}
	return append(out, env...)
}

func vtC17Decoys(c client.Client) {
	ctx := context.TODO()
	p := &corev1.Pod{ObjectMeta: metav1.ObjectMeta{Namespace: "other", Name: vtC17Pod, UID: "u09"}}
	p.Spec.NodeName = "n02"
	p.Status.Phase = corev1.PodRunning
	if err := c.Create(ctx, p); err != nil {
		panic(err)
	}
	r := &sev1alpha1.Reservation{ObjectMeta: metav1.ObjectMeta{Name: vtC17JobUID + "-other"}}
	r.Status.Phase = sev1alpha1.ReservationSucceeded
	r.Status.NodeName = "n01"
	r.Status.CurrentOwners = []corev1.ObjectReference{{Namespace: "other", Name: vtC17Pod, UID: "u09"}}
	r.Status.Conditions = []sev1alpha1.ReservationCondition{{Type: sev1alpha1.ReservationConditionReady,
		Status: sev1alpha1.ConditionStatusFalse, Reason: sev1alpha1.ReasonReservationExpired}}
	if err := c.Create(ctx, r); err != nil {
		panic(err)
	}
}

func vtC17Exec(in []int64) []int64 {
	vtC17Init()
	direct, paused, ttl, pvalid, initphase, rref0, createdBy, tmpl, nops := in[0], in[1], in[2], in[3], in[4], in[5], in[6], in[7], int(in[8])
	w := &vtC17World{}
	w.base = fake.NewClientBuilder().WithScheme(vtC17Scheme).WithStatusSubresource(&sev1alpha1.PodMigrationJob{}).Build()
	w.faulty = interceptor.NewClient(w.base, w.funcs())
	w.clk = fakeclock.NewFakeClock(vtC17Base)
	w.defMode = sev1alpha1.PodMigrationJobModeReservationFirst
	if direct == 3 {
		w.defMode = sev1alpha1.PodMigrationJobModeEvictionDirectly
	}
	w.newReconciler()
	vtC17Decoys(w.base)

	job := &sev1alpha1.PodMigrationJob{
		ObjectMeta: metav1.ObjectMeta{Name: vtC17JobName, UID: vtC17JobUID, CreationTimestamp: metav1.Time{Time: vtC17Base}},
		Spec: sev1alpha1.PodMigrationJobSpec{
			Paused: paused != 0,
			PodRef: &corev1.ObjectReference{Namespace: vtC17NS, Name: vtC17Pod},
			Mode:   sev1alpha1.PodMigrationJobModeReservationFirst,
		},
	}
	switch direct {
	case 1:
		job.Spec.Mode = sev1alpha1.PodMigrationJobModeEvictionDirectly
	case 2, 3:
		job.Spec.Mode = ""
	}
	if ttl != 0 {
		job.Spec.TTL = &metav1.Duration{Duration: time.Duration(ttl) * time.Second}
	}
	if pvalid == 0 {
		job.Spec.PodRef.Name = ""
	}
	if rref0 != 0 {
		job.Spec.ReservationOptions = &sev1alpha1.PodMigrateReservationOptions{ReservationRef: &corev1.ObjectReference{Name: vtC17JobUID}}
	}
	if tmpl > 0 {
		if job.Spec.ReservationOptions == nil {
			job.Spec.ReservationOptions = &sev1alpha1.PodMigrateReservationOptions{}
		}
		t := &sev1alpha1.ReservationTemplateSpec{}
		switch tmpl % 4 {
		case 2:
			tr := true
			t.Spec.AllocateOnce = &tr
		case 3:
			fa := false
			t.Spec.AllocateOnce = &fa
		}
		switch tmpl / 4 {
		case 1:
			tr := true
			t.Spec.Owners = []sev1alpha1.ReservationOwner{{Controller: &sev1alpha1.ReservationControllerReference{
				OwnerReference: metav1.OwnerReference{Kind: "ReplicaSet", Name: "rs", UID: "rsuid", Controller: &tr}, Namespace: vtC17NS}}}
		case 2:
			t.Spec.Owners = []sev1alpha1.ReservationOwner{{Object: &corev1.ObjectReference{Kind: "Pod", Namespace: vtC17NS, Name: vtC17Pod}}}
		}
		job.Spec.ReservationOptions.Template = t
	}
	if createdBy != 0 {
		job.Annotations = map[string]string{AnnotationJobCreatedBy: "gen0"}
	}
	ctx := context.TODO()
	if err := w.base.Create(ctx, job); err != nil {
		panic(err)
	}
	if initphase != 0 {
		job.Status.Phase = vtC17JobPhase[initphase]
		if err := w.base.Status().Update(ctx, job); err != nil {
			panic(err)
		}
	}
	cur := &sev1alpha1.PodMigrationJob{}
	if err := w.base.Get(ctx, types.NamespacedName{Name: vtC17JobName}, cur); err != nil {
		panic(err)
	}
	w.snaps = []*sev1alpha1.PodMigrationJob{cur}
	now := int64(0)
	var obs []int64
	for i := 0; i < nops; i++ {
		op := in[vtC17Hdr+vtC17Width*i : vtC17Hdr+vtC17Width*(i+1)]
		w.effects, w.neff = nil, 0
		switch op[0] {
		case 0:
			w.mask, w.nwrite = op[1], 0
			_, _ = w.rec.Reconcile(ctx, reconcile.Request{NamespacedName: types.NamespacedName{Name: vtC17JobName}})
			w.lag = 0
		case 1:
			w.setRes(op[1:])
		case 2:
			w.setPod(op[1:])
		case 3:
			w.setBP(op[1])
		case 4:
			now += op[1]
			w.clk.SetTime(vtC17Base.Add(time.Duration(now) * time.Second))
		case 5:
			w.gen++
			w.newReconciler()
			w.snaps = w.snaps[len(w.snaps)-1:]
		case 6:
			w.lag = op[1]
		case 7:
			w.sched(op[1])
		case 8:
			w.alloc(op[1])
		}
		obs = append(obs, w.neff)
		obs = append(obs, w.effects...)
		obs = append(obs, w.summary()...)
	}
	return obs
}

// ---- generator
//
// Two families. "script:*" cases follow one of the controller's storylines (reservation-first
// migration to the end, direct eviction, timeout, pending-pod migration, preemption, user-provided
// reservation, unschedulable / expired / same-node / bound-by-another reservation, pod replaced
// mid-way) and perturb it: every reconcile may carry a fault mask, and random environment events,
// ticks, restarts and extra reconciles are inserted between the scripted steps. "random:*" cases are
// unstructured sequences over the same operations.

type vtC17G struct {
	r       *rand.Rand
	in      []int64
	n       int
	podUID  int64
	podNode int64
	faulty  int // per-mille of reconciles with a fault mask
	once    int64 // AllocateOnce of the reservations set by the environment: 0 false, 1 true, 2 nil
}

func (g *vtC17G) op(kind int64, a ...int64) {
	rec := make([]int64, vtC17Width)
	rec[0] = kind
	copy(rec[1:], a)
	g.in = append(g.in, rec...)
	g.n++
}

func (g *vtC17G) mask() int64 {
	if g.r.Intn(1000) >= g.faulty {
		return 0
	}
	switch g.r.Intn(4) {
	case 0:
		return int64(1) << uint(g.r.Intn(3))
	case 1:
		return int64(1) << uint(g.r.Intn(8))
	case 2:
		return int64(g.r.Intn(16))
	default:
		return int64(g.r.Intn(256))
	}
}

func (g *vtC17G) reconcile() { g.op(0, g.mask()) }

func (g *vtC17G) otherNode() int64 { return g.podNode%3 + 1 }

// res: exists label phase node sched expired owner bound needp pdone once
func (g *vtC17G) res(label, phase, node, sched, expired, owner, bound, needp, pdone int64) {
	g.op(1, 1, label, phase, node, sched, expired, owner, bound, needp, pdone, g.once)
}

// the reservation the controller created gets scheduled: by the scheduler's in-place transition, or
// (the older scripts) by replacing the object
func (g *vtC17G) scheduled(node, owner int64) {
	if g.r.Intn(2) == 0 {
		g.op(7, node)
	} else {
		g.res(1, 2, node, 1, 0, owner, 0, 0, 0)
	}
}

func (g *vtC17G) pod(uid, node, sched, ctrl int64) {
	g.podUID, g.podNode = uid, node
	g.op(2, 1, uid, node, sched, ctrl)
}

func (g *vtC17G) randomRes() {
	r := g.r
	if r.Intn(8) == 0 {
		g.op(1, 0)
		return
	}
	phase := []int64{0, 1, 2, 2, 2, 2, 3, 4, 5, 5}[r.Intn(10)]
	node := int64(0)
	if r.Intn(5) != 0 {
		node = int64(1 + r.Intn(3))
		if r.Intn(4) == 0 && g.podNode != 0 {
			node = g.podNode
		}
	}
	sched := []int64{0, 2, 3, 1, 1, 1}[r.Intn(6)]
	expired := int64(0)
	if phase == 5 {
		expired = int64(r.Intn(2))
	} else if r.Intn(10) == 0 {
		expired = 1
	}
	owner := []int64{0, 1, 1, 1, 2}[r.Intn(5)]
	bound := int64(0)
	if phase == 3 || r.Intn(4) == 0 {
		bound = int64(1 + r.Intn(3))
	}
	needp, pdone := int64(0), int64(0)
	if r.Intn(5) == 0 {
		needp, pdone = int64(r.Intn(2)), int64(r.Intn(2))
	}
	save := g.once
	if r.Intn(3) == 0 {
		g.once = int64(r.Intn(3))
	}
	g.res(vtB(r.Intn(4) != 0), phase, node, sched, expired, owner, bound, needp, pdone)
	g.once = save
}

func (g *vtC17G) randomPod() {
	r := g.r
	if r.Intn(6) == 0 {
		g.op(2, 0)
		g.podNode = 0
		return
	}
	uid := g.podUID
	if uid == 0 || r.Intn(3) == 0 {
		uid = int64(1 + r.Intn(3))
	}
	sched := int64(2)
	if r.Intn(6) == 0 {
		sched = int64(r.Intn(3))
	}
	node := int64(1 + r.Intn(3))
	if sched == 1 {
		node = 0
	}
	g.pod(uid, node, sched, int64(r.Intn(2)))
}

// one random operation (used between scripted steps and for the unstructured family)
func (g *vtC17G) noise() {
	k := g.r.Intn(100)
	switch {
	case k < 40:
		g.reconcile()
	case k < 60:
		g.randomRes()
	case k < 74:
		g.randomPod()
	case k < 82:
		g.op(3, int64(g.r.Intn(3)))
	case k < 88:
		g.op(4, int64(g.r.Intn(6)))
	case k < 91:
		g.op(7, int64(g.r.Intn(4))) // scheduler: schedule the pending reservation (node 0: no-op)
	case k < 94:
		g.op(8, int64(g.r.Intn(4))) // scheduler: some pod is allocated from the reservation
	case k < 97:
		// a lagging informer read, usually served right away
		g.op(6, int64(1+g.r.Intn(4)))
		if g.r.Intn(4) != 0 {
			g.reconcile()
		}
	default:
		g.op(5)
	}
}

func vtC17Gen(r *rand.Rand, i int) (string, []int64) {
	g := &vtC17G{r: r, once: []int64{1, 1, 1, 2, 0}[r.Intn(5)]}
	direct, paused, ttl, pvalid, rref0, createdBy, tmpl := int64(0), int64(0), int64(0), int64(1), int64(0), int64(0), int64(0)
	if r.Intn(3) == 0 {
		// a user-supplied reservation template: AllocateOnce nil / true / false, usually without Owners
		tmpl = int64(1+r.Intn(3)) + 4*[]int64{0, 0, 0, 1, 2}[r.Intn(5)]
	}
	initphase := int64(r.Intn(2))
	if r.Intn(25) == 0 {
		initphase = int64(2 + r.Intn(4)) // created Running, or already finished: Succeeded / Failed / Aborted
	}
	if r.Intn(40) == 0 {
		paused = 1
	}
	if r.Intn(60) == 0 {
		pvalid = 0
	}
	if r.Intn(4) == 0 {
		ttl = int64(5 + r.Intn(30))
		if r.Intn(10) == 0 {
			ttl = []int64{-1, 1, 1 << 31}[r.Intn(3)] // a negative TTL has always elapsed; seconds beyond int32
		}
	}
	if r.Intn(8) == 0 {
		createdBy = 1
	}
	g.faulty = []int{0, 0, 100, 300, 600}[r.Intn(5)]
	noise := []int{0, 5, 15, 35}[r.Intn(4)] // percent chance of a random op before each scripted step
	step := func(f func()) {
		for r.Intn(100) < noise && g.n < 40 {
			g.noise()
		}
		f()
	}
	ctrl := int64(r.Intn(2))
	uid := int64(1 + r.Intn(3))
	node := int64(1 + r.Intn(3))
	bound := uid%3 + 1
	label := "random"
	family := r.Intn(100)
	switch {
	case family < 22: // reservation-first migration to the end
		label = "script:migrate"
		step(func() { g.pod(uid, node, 2, ctrl) })
		step(g.reconcile)
		step(func() { g.scheduled(g.otherNode(), 1) })
		step(g.reconcile)
		step(g.reconcile)
		step(func() { g.op(2, 0); g.podNode = 0 })
		step(g.reconcile)
		if r.Intn(2) == 0 {
			step(func() { g.op(8, bound) })
		} else {
			step(func() { g.res(1, 3, node%3+1, 1, 0, 1, bound, 0, 0) })
		}
		step(func() { g.op(3, int64(r.Intn(3))) })
		step(g.reconcile)
		step(func() { g.op(3, 2) })
		step(g.reconcile)
		step(g.reconcile)
	case family < 30: // direct eviction
		label = "script:direct"
		direct = 1
		step(func() { g.pod(uid, node, 2, ctrl) })
		step(g.reconcile)
		step(g.reconcile)
		step(func() { g.op(2, 0); g.podNode = 0 })
		step(g.reconcile)
		step(g.reconcile)
	case family < 38: // timeout at some point of a migration
		label = "script:timeout"
		ttl = int64(3 + r.Intn(10))
		cut := r.Intn(5)
		if r.Intn(4) == 0 {
			// the Update recording ReservationRef fails, then the TTL passes (known finding sig 2)
			step(func() { g.pod(uid, node, 2, ctrl) })
			step(func() { g.op(0, 8) })
			if r.Intn(2) == 0 {
				// a reconcile in time: the reservation is adopted (Create -> AlreadyExists -> Get) and recorded
				step(g.reconcile)
			}
			step(func() { g.op(4, ttl+int64(r.Intn(3))-1) })
			step(g.reconcile)
			step(g.reconcile)
			break
		}
		steps := []func(){
			func() { g.pod(uid, node, 2, ctrl) },
			g.reconcile,
			func() { g.res(1, 2, g.otherNode(), 1, 0, 1, 0, 0, 0) },
			g.reconcile,
		}
		for k, f := range steps {
			if k == cut {
				step(func() { g.op(4, ttl+int64(r.Intn(3))-1) })
			}
			step(f)
		}
		if cut >= len(steps) {
			step(func() { g.op(4, ttl+int64(r.Intn(3))-1) })
		}
		step(g.reconcile)
		step(g.reconcile)
	case family < 46: // migration of a pending (unschedulable) pod
		label = "script:pendingpod"
		step(func() { g.pod(uid, 0, 1, ctrl) })
		step(g.reconcile)
		step(func() { g.res(1, 2, node, 1, 0, 2, 0, 0, 0) })
		step(g.reconcile)
		if r.Intn(3) == 0 {
			step(func() { g.res(1, 3, node, 1, 0, 2, []int64{uid, bound}[r.Intn(2)], 0, 0) })
			step(g.reconcile)
		}
		step(func() { g.pod(uid, node, 2, ctrl) })
		step(g.reconcile)
		step(g.reconcile)
	case family < 53: // preemption extension point
		label = "script:preempt"
		step(func() { g.pod(uid, node, 2, ctrl) })
		step(g.reconcile)
		step(func() { g.res(1, 2, 0, []int64{0, 2}[r.Intn(2)], 0, 1, 0, 1, 0) })
		step(g.reconcile)
		step(func() { g.res(1, 2, []int64{0, g.otherNode()}[r.Intn(2)], []int64{0, 2, 1}[r.Intn(3)], 0, 1, 0, 1, 1) })
		step(g.reconcile)
		step(g.reconcile)
	case family < 60: // reservation supplied by the user (possibly without the order label)
		label = "script:userref"
		rref0 = 1
		step(func() { g.res(int64(r.Intn(2)), 2, g.otherNode(), 1, 0, 1, 0, 0, 0) })
		step(func() { g.pod(uid, node, 2, ctrl) })
		step(g.reconcile)
		step(g.reconcile)
		step(func() { g.op(1, 0) }) // reservation deleted
		step(g.reconcile)
	case family < 68: // a reservation that must not lead to an eviction
		label = "script:refuse"
		step(func() { g.pod(uid, node, 2, ctrl) })
		step(g.reconcile)
		switch r.Intn(6) {
		case 0: // unschedulable
			step(func() { g.res(1, []int64{1, 2, 5}[r.Intn(3)], 0, 2, 0, 1, 0, 0, 0) })
		case 1: // expired
			step(func() { g.res(1, 5, []int64{0, g.otherNode()}[r.Intn(2)], []int64{1, 2}[r.Intn(2)], 1, 1, 0, 0, 0) })
		case 2: // same node
			step(func() { g.res(1, 2, node, 1, 0, 1, 0, 0, 0) })
		case 3: // already consumed
			step(func() { g.res(1, 3, g.otherNode(), 1, 0, 1, bound, 0, 0) })
		case 4: // still pending, with a node already
			step(func() { g.res(1, int64(r.Intn(2)), g.otherNode(), 1, 0, 1, 0, 0, 0) })
		default: // deleted
			step(func() { g.op(1, 0) })
		}
		step(g.reconcile)
		step(g.reconcile)
	case family < 73: // the scheduler hands the reservation to another pod before the controller evicts
		label = "script:sibling"
		step(func() { g.pod(uid, node, 2, ctrl) })
		step(g.reconcile)
		if r.Intn(4) == 0 {
			step(g.reconcile) // still pending
		}
		step(func() { g.op(7, g.otherNode()) })
		if r.Intn(3) == 0 {
			step(g.reconcile) // evicts first; the sibling takes the reservation afterwards
		}
		step(func() { g.op(8, bound) })
		step(g.reconcile)
		step(g.reconcile)
		if r.Intn(2) == 0 {
			step(func() { g.op(2, 0); g.podNode = 0 })
			step(g.reconcile)
		}
	case family < 78: // the pod is missing when the job is first looked at, and comes back
		label = "script:latepod"
		if r.Intn(3) != 0 {
			direct = int64(r.Intn(2))
		}
		step(g.reconcile)
		step(func() { g.pod(uid, node, 2, ctrl) })
		step(g.reconcile)
		step(func() { g.op(7, g.otherNode()) })
		step(g.reconcile)
		step(g.reconcile)
	case family < 84: // a lagging informer serves an intermediate version of the job
		label = "script:lag"
		rref0 = int64(r.Intn(2))
		if rref0 == 1 {
			step(func() { g.res(1, 2, node%3+1, 1, 0, 1, 0, 0, 0) })
		}
		step(func() { g.pod(uid, node, 2, ctrl) })
		step(g.reconcile)
		if rref0 == 0 {
			step(func() { g.res(1, 2, g.otherNode(), 1, 0, 1, 0, 0, 0) })
			step(g.reconcile)
		}
		for k := 1 + r.Intn(3); k > 0; k-- {
			if r.Intn(5) == 0 {
				step(func() { g.op(5) })
			}
			step(func() { g.op(6, int64(1+r.Intn(4))) })
			step(g.reconcile)
		}
		step(g.reconcile)
	case family < 90: // the eviction call fails, then the world changes
		label = "script:retry"
		step(func() { g.pod(uid, node, 2, ctrl) })
		step(g.reconcile)
		step(func() { g.scheduled(g.otherNode(), 1) })
		rn := g.otherNode()
		g.op(0, int64(4)<<uint(r.Intn(2))) // third or fourth write fails (the eviction call)
		switch r.Intn(4) {
		case 0: // pod replaced, maybe onto the reservation's node
			step(func() { g.pod(uid%3+1, []int64{rn, node, g.otherNode()}[r.Intn(3)], 2, ctrl) })
		case 1: // reservation consumed meanwhile
			if r.Intn(2) == 0 {
				step(func() { g.op(8, bound) })
			} else {
				step(func() { g.res(1, 3, rn, 1, 0, 1, bound, 0, 0) })
			}
		case 2: // reservation expired meanwhile
			step(func() { g.res(1, 5, rn, 1, 1, 1, 0, 0, 0) })
		default:
		}
		step(g.reconcile)
		step(g.reconcile)
	default:
		label = "random"
		if r.Intn(8) == 0 {
			direct = 1
		}
		rref0 = vtB(r.Intn(5) == 0)
		noise = 0
		if r.Intn(10) != 0 {
			g.randomPod()
		}
		n := 4 + r.Intn(12)
		for g.n < n {
			g.noise()
		}
	}
	// epilogue: a few more random operations (finished jobs must stay finished)
	for k := r.Intn(4); k > 0; k-- {
		g.noise()
	}
	if g.faulty == 0 && label != "random" && !vtC17HasMask(g.in) {
		label += ":nofault"
	}
	if r.Intn(4) == 0 {
		direct += 2 // the mode comes from the controller's DefaultJobMode
	}
	if initphase >= 2 {
		pvalid = 1 // an invalid PodRef is only modelled for a job that is still pending
	}
	hdr := []int64{direct, paused, ttl, pvalid, initphase, rref0, createdBy, tmpl, int64(g.n)}
	return label, append(hdr, g.in...)
}

func vtC17HasMask(ops []int64) bool {
	for k := 0; k+vtC17Width <= len(ops); k += vtC17Width {
		if ops[k] == 0 && ops[k+1] != 0 {
			return true
		}
	}
	return false
}

func TestVerifC17(t *testing.T) { vtMain(t, "C17", vtC17Gen, vtC17Exec) }
