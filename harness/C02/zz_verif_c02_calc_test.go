//go:build verif

package core

import (
	"fmt"
	"math/rand"
	"testing"

	v1 "k8s.io/api/core/v1"
	"k8s.io/apimachinery/pkg/api/resource"
)

// C02 stream "calculator": histories of RuntimeQuotaCalculator method calls made the way
// GroupQuotaManager makes them (figure of the child's QuotaInfo changed, then the matching
// updateOneGroupXxx / need…→update… pair; deleteOneGroup on deletion), one resource dimension.
//
// input:  K n  then n records  code k a b
//	0 create(k, lend=a, max=b)  1 max(k,a)  2 min(k,a)  3 sharedWeight(k,a)  4 request(k,a)
//	5 guarantee(k,a)  6 delete(k)  7 total(a)  8 observe only
// observable: after EVERY op, for the slots 1..K in name order: the child's runtime after
// updateOneGroupRuntimeQuota (guarded by the version stamps as in refreshRuntimeNoLock), -1 when
// no child of that name is live.
const vtC02CalcDim = v1.ResourceMemory

func vtC02CalcQty(v int64) v1.ResourceList {
	return v1.ResourceList{vtC02CalcDim: *resource.NewQuantity(v, resource.BinarySI)}
}

func vtC02CalcExec(in []int64) []int64 {
	K, n := int(in[0]), int(in[1])
	calc := NewRuntimeQuotaCalculator("parent")
	calc.updateResourceKeys(map[v1.ResourceName]struct{}{vtC02CalcDim: {}})
	live := map[int]*QuotaInfo{}
	obs := make([]int64, 0, K*n)
	for i := 0; i < n; i++ {
		rec := in[2+4*i : 6+4*i]
		code, k, a, b := rec[0], int(rec[1]), rec[2], rec[3]
		qi := live[k]
		switch {
		case code == 0:
			if qi == nil {
				qi = NewQuotaInfo(false, a != 0, fmt.Sprintf("q%02d", k), "parent")
				qi.CalculateInfo.Max = vtC02CalcQty(b)
				calc.updateOneGroupMaxQuota(qi)
				live[k] = qi
			}
		case code == 7:
			calc.setClusterTotalResource(vtC02CalcQty(a))
		case code < 0 || code > 7 || qi == nil:
			// observe only / op on a child that is not live
		case code == 1:
			qi.CalculateInfo.Max = vtC02CalcQty(a)
			calc.updateOneGroupMaxQuota(qi)
		case code == 2:
			qi.CalculateInfo.AutoScaleMin = vtC02CalcQty(a)
			calc.updateOneGroupMinQuota(qi)
		case code == 3:
			qi.CalculateInfo.SharedWeight = vtC02CalcQty(a)
			calc.updateOneGroupSharedWeight(qi)
		case code == 4:
			qi.CalculateInfo.Request = vtC02CalcQty(a)
			if calc.needUpdateOneGroupRequest(qi) {
				calc.updateOneGroupRequest(qi)
			}
		case code == 5:
			qi.CalculateInfo.Guaranteed = vtC02CalcQty(a)
			if calc.needUpdateOneGroupGuaranteed(qi) {
				calc.updateOneGroupGuaranteed(qi)
			}
		case code == 6:
			calc.deleteOneGroup(qi)
			delete(live, k)
		}
		for id := 1; id <= K; id++ {
			q := live[id]
			if q == nil {
				obs = append(obs, -1)
				continue
			}
			if q.RuntimeVersion != calc.getVersion() {
				calc.updateOneGroupRuntimeQuota(q)
			}
			rt := q.CalculateInfo.Runtime[vtC02CalcDim]
			obs = append(obs, rt.Value())
		}
	}
	return obs
}

type vtC02CalcFig struct {
	live                bool
	lend                int64
	max, req, min, w, g int64
}

func vtC02CalcGen(r *rand.Rand, i int) (string, []int64) {
	style := []string{"small", "small", "small", "large", "large", "mixed"}[r.Intn(6)]
	K := 2 + r.Intn(4)
	// a small palette per case, so that "the same value again" is frequent
	pal := make([]int64, 4+r.Intn(3))
	for j := range pal {
		switch {
		case style == "small" || (style == "mixed" && r.Intn(2) == 0):
			pal[j] = int64(r.Intn(13))
		default:
			pal[j] = int64(1)<<40 + (r.Int63n(1<<42) - 1<<20)
			if r.Intn(4) == 0 {
				pal[j] = vtQty(r, int64(1)<<50)
			}
		}
	}
	q := func() int64 { return pal[r.Intn(len(pal))] }
	big := func() int64 { // a max that usually does not bind
		if r.Intn(3) == 0 {
			return q()
		}
		if style == "small" {
			return 20 + int64(r.Intn(30))
		}
		return int64(1)<<52 + r.Int63n(1<<40)
	}
	cur := make([]vtC02CalcFig, K+1)
	var total int64
	ops := []int64{}
	emit := func(code int64, k int, a, b int64) { ops = append(ops, code, int64(k), a, b) }
	create := func(k int, lend, mx int64) {
		emit(0, k, lend, mx)
		if !cur[k].live {
			cur[k] = vtC02CalcFig{live: true, lend: lend, max: mx}
		}
	}
	set := func(code int64, k int, v int64) {
		emit(code, k, v, 0)
		if cur[k].live {
			switch code {
			case 1:
				cur[k].max = v
			case 2:
				cur[k].min = v
			case 3:
				cur[k].w = v
			case 4:
				cur[k].req = v
			case 5:
				cur[k].g = v
			}
		}
	}
	del := func(k int) {
		emit(6, k, 0, 0)
		cur[k] = vtC02CalcFig{}
	}
	figures := func(k int, f vtC02CalcFig) { // push the figures the way a (re-)created quota gets them
		if f.min != 0 {
			set(2, k, f.min)
		}
		if f.w != 0 {
			set(3, k, f.w)
		}
		if f.req != 0 {
			set(4, k, f.req)
		}
		if f.g != 0 {
			set(5, k, f.g)
		}
	}
	contend := func() { // a total between the sum of the minimums and the sum of the requests
		var lo, hi int64
		for k := 1; k <= K; k++ {
			f := cur[k]
			if !f.live {
				continue
			}
			m := f.min
			if f.g > m {
				m = f.g
			}
			rq := f.req
			if rq > f.max {
				rq = f.max
			}
			lo += m
			if rq > m {
				hi += rq
			} else {
				hi += m
			}
		}
		switch r.Intn(5) {
		case 0:
			total = lo
		case 1:
			if lo > 0 {
				total = r.Int63n(lo + 1)
			}
		case 2:
			total = hi + int64(r.Intn(3))
		default:
			total = lo + r.Int63n(hi-lo+1)
		}
		emit(7, 0, total, 0)
	}
	pick := func(wantLive bool) int {
		c := []int{}
		for k := 1; k <= K; k++ {
			if cur[k].live == wantLive {
				c = append(c, k)
			}
		}
		if len(c) == 0 {
			return 1 + r.Intn(K)
		}
		return c[r.Intn(len(c))]
	}
	// two or three children to start with
	for j, k := range r.Perm(K) {
		if j >= 2+r.Intn(2) {
			break
		}
		create(k+1, int64(r.Intn(2)), big())
		f := vtC02CalcFig{min: q(), w: q(), req: q()}
		if r.Intn(3) == 0 {
			f.w = 0
		}
		if r.Intn(3) == 0 {
			f.g = q()
		}
		figures(k+1, f)
	}
	contend()
	limit := 12 + r.Intn(8)
	for len(ops)/4 < limit {
		switch x := r.Intn(20); {
		case x < 4:
			set(4, pick(true), q())
		case x < 6:
			set(5, pick(true), q())
		case x < 7:
			set(2, pick(true), q())
		case x < 8:
			if r.Intn(2) == 0 {
				set(3, pick(true), 0)
			} else {
				set(3, pick(true), q())
			}
		case x < 9:
			set(1, pick(true), big())
		case x < 10:
			contend()
		case x < 11:
			del(pick(true))
		case x < 12:
			k := pick(false)
			create(k, int64(r.Intn(2)), big())
			figures(k, vtC02CalcFig{min: q(), w: q(), req: q()})
		case x < 13:
			emit(8, 0, 0, 0)
		case x < 14: // update to the same value
			k := pick(true)
			f := cur[k]
			code := int64(1 + r.Intn(5))
			set(code, k, []int64{f.max, f.min, f.w, f.req, f.g}[code-1])
		case x < 15: // an op on a child that is not live / a second create of a live one
			if r.Intn(2) == 0 {
				set(int64(1+r.Intn(5)), pick(false), q())
			} else {
				create(pick(true), 1, q())
			}
		default: // delete, then re-create under the same name with the same figures
			k := pick(true)
			f := cur[k]
			if !f.live {
				continue
			}
			del(k)
			if r.Intn(3) == 0 {
				set(4, pick(true), q())
			}
			create(k, f.lend, f.max)
			figures(k, f)
			if r.Intn(2) == 0 {
				contend()
			}
		}
	}
	in := append([]int64{int64(K), int64(len(ops) / 4)}, ops...)
	return style, in
}

func TestVerifC02Calc(t *testing.T) { vtMain(t, "C02", vtC02CalcGen, vtC02CalcExec) }
