//go:build verif

package core

import (
	"fmt"
	"math/rand"
	"testing"

	v1 "k8s.io/api/core/v1"
	"k8s.io/apimachinery/pkg/api/resource"
	metav1 "k8s.io/apimachinery/pkg/apis/meta/v1"
	k8sfeature "k8s.io/apiserver/pkg/util/feature"

	"github.com/koordinator-sh/koordinator/apis/extension"
	"github.com/koordinator-sh/koordinator/apis/thirdparty/scheduler-plugins/pkg/apis/scheduling/v1alpha1"
	"github.com/koordinator-sh/koordinator/pkg/features"
)

// C02 stream "dims": GroupQuotaManager on 1–3-level quota trees in TWO resource dimensions (cpu in
// milli-cores, memory in bytes), with the feature gate ElasticQuotaGuaranteeUsage switched per case and
// pods that are reserved / un-reserved / resized in place.
//
// input: K+100*gate n then n records  code k a b c d e f g h
//	0 UpdateQuota(k, parent=a, flags=b (1: isParent, 2: allowLent), max=(c milli-cpu, d bytes), min=(e, f), sharedWeight=(g, h))
//	1 DeleteQuota(k)
//	2 the pod of (k, slot a) leaves (OnPodDelete); unless b = c = 0 one requesting (b milli-cpu, c bytes) arrives
//	  (OnPodAdd; a zero component is ABSENT from the pod's requests; d = 1: Spec.NodeName set)
//	3 cluster total = (a, b)   4 observe only
//	5 ReservePod(k, slot a)    6 UnreservePod(k, slot a)
//	7 OnPodUpdate: the pod of (k, slot a) now requests (b, c)
// observable: after EVERY op RefreshRuntime(q01..qK) in name order: cpu (milli) and memory of each, -1 -1 for a
// name that is not live.
// Skipped here and in the model alike: creating under a parent that is not a live parent quota; the parent and
// the labels of a live quota never change (the record's a and b are ignored for a live name); deleting a quota
// that still has children; pods in a parent quota.
func vtC02DimQty(c, m int64) v1.ResourceList {
	return v1.ResourceList{
		v1.ResourceCPU:    *resource.NewMilliQuantity(c, resource.DecimalSI),
		v1.ResourceMemory: *resource.NewQuantity(m, resource.BinarySI),
	}
}

func vtC02DimQuota(k int, m vtC02MgrMeta, mxc, mxm, mnc, mnm, wc, wm int64) *v1alpha1.ElasticQuota {
	q := &v1alpha1.ElasticQuota{
		ObjectMeta: metav1.ObjectMeta{Name: vtC02MgrName(k), Annotations: map[string]string{}, Labels: map[string]string{}},
		Spec:       v1alpha1.ElasticQuotaSpec{Max: vtC02DimQty(mxc, mxm), Min: vtC02DimQty(mnc, mnm)},
	}
	q.Annotations[extension.AnnotationSharedWeight] = fmt.Sprintf("{\"cpu\":\"%dm\",\"memory\":\"%d\"}", wc, wm)
	q.Labels[extension.LabelQuotaParent] = vtC02MgrName(m.parent)
	q.Labels[extension.LabelAllowLentResource] = fmt.Sprintf("%v", m.lend)
	q.Labels[extension.LabelQuotaIsParent] = fmt.Sprintf("%v", m.isParent)
	return q
}

type vtC02DimPod struct {
	cpu, mem int64
	pod      *v1.Pod
}

func vtC02DimMkPod(name string, c, m int64, node string) *v1.Pod {
	req := v1.ResourceList{}
	if c != 0 {
		req[v1.ResourceCPU] = *resource.NewMilliQuantity(c, resource.DecimalSI)
	}
	if m != 0 {
		req[v1.ResourceMemory] = *resource.NewQuantity(m, resource.BinarySI)
	}
	return &v1.Pod{
		ObjectMeta: metav1.ObjectMeta{Namespace: "default", Name: name},
		Spec: v1.PodSpec{NodeName: node, Containers: []v1.Container{{
			Name:      "c",
			Resources: v1.ResourceRequirements{Requests: req},
		}}},
	}
}

func vtC02DimExec(in []int64) []int64 {
	K, n := int(in[0]%100), int(in[1])
	gate := in[0] >= 100
	if err := k8sfeature.DefaultMutableFeatureGate.SetFromMap(map[string]bool{string(features.ElasticQuotaGuaranteeUsage): gate}); err != nil {
		panic(err)
	}
	defer k8sfeature.DefaultMutableFeatureGate.SetFromMap(map[string]bool{string(features.ElasticQuotaGuaranteeUsage): false})
	huge := vtC02DimQty(1<<50, 1<<62)
	gqm := NewGroupQuotaManager("", false, huge, huge)
	meta := map[int]vtC02MgrMeta{}
	pods := map[[2]int]*vtC02DimPod{}
	var tc, tm int64
	gen := 0
	obs := make([]int64, 0, 2*K*n)
	children := func(k int) bool {
		for _, m := range meta {
			if m.parent == k {
				return true
			}
		}
		return false
	}
	for i := 0; i < n; i++ {
		rec := in[2+10*i : 12+10*i]
		code, k := rec[0], int(rec[1])
		m, isLive := meta[k]
		key := [2]int{k, int(rec[2])}
		switch code {
		case 0:
			if !isLive {
				m = vtC02MgrMeta{parent: int(rec[2]), isParent: rec[3]&1 != 0, lend: rec[3]&2 != 0}
				pm, pl := meta[m.parent]
				if k == 0 || (m.parent != 0 && !(pl && pm.isParent)) {
					break
				}
				meta[k] = m
			}
			if err := gqm.UpdateQuota(vtC02DimQuota(k, m, rec[4], rec[5], rec[6], rec[7], rec[8], rec[9])); err != nil {
				panic(err)
			}
		case 1:
			if isLive && !children(k) {
				if err := gqm.DeleteQuota(vtC02DimQuota(k, m, 0, 0, 0, 0, 0, 0)); err != nil {
					panic(err)
				}
				delete(meta, k)
				for pk := range pods {
					if pk[0] == k {
						delete(pods, pk)
					}
				}
			}
		case 2:
			if isLive && !m.isParent {
				if old := pods[key]; old != nil {
					gqm.OnPodDelete(vtC02MgrName(k), old.pod)
					delete(pods, key)
				}
				if rec[3] != 0 || rec[4] != 0 {
					gen++
					node := ""
					if rec[5] == 1 {
						node = "n1"
					}
					p := &vtC02DimPod{cpu: rec[3], mem: rec[4], pod: vtC02DimMkPod(fmt.Sprintf("p%d-%d-%d", k, rec[2], gen), rec[3], rec[4], node)}
					gqm.OnPodAdd(vtC02MgrName(k), p.pod)
					pods[key] = p
				}
			}
		case 3:
			gqm.UpdateClusterTotalResource(vtC02DimQty(rec[2]-tc, rec[3]-tm))
			tc, tm = rec[2], rec[3]
		case 5:
			if p := pods[key]; isLive && p != nil {
				gqm.ReservePod(vtC02MgrName(k), p.pod)
			}
		case 6:
			if p := pods[key]; isLive && p != nil {
				gqm.UnreservePod(vtC02MgrName(k), p.pod)
				// the roll-back of a failed binding: the pod is not on a node (any more)
				np := p.pod.DeepCopy()
				np.Spec.NodeName = ""
				p.pod = np
			}
		case 7:
			if p := pods[key]; isLive && p != nil {
				np := vtC02DimMkPod(p.pod.Name, rec[3], rec[4], p.pod.Spec.NodeName)
				gqm.OnPodUpdate(vtC02MgrName(k), vtC02MgrName(k), np, p.pod)
				p.cpu, p.mem, p.pod = rec[3], rec[4], np
			}
		}
		for id := 1; id <= K; id++ {
			if _, ok := meta[id]; !ok {
				obs = append(obs, -1, -1)
				continue
			}
			rt := gqm.RefreshRuntime(vtC02MgrName(id))
			c, mm := rt[v1.ResourceCPU], rt[v1.ResourceMemory]
			obs = append(obs, c.MilliValue(), mm.Value())
		}
	}
	return obs
}

type vtC02DimFig struct {
	live                         bool
	meta                         vtC02MgrMeta
	mxc, mxm, mnc, mnm, wc, wm   int64
	pc, pm                       [2]int64
	has, asg                     [2]bool
}

func vtC02DimGen(r *rand.Rand, i int) (string, []int64) {
	style := []string{"small", "subcore", "subcore", "large", "mixed"}[r.Intn(5)]
	shape := []string{"flat", "two", "two", "three"}[r.Intn(4)]
	K := 3 + r.Intn(3)
	gate := r.Intn(2) == 0 // ElasticQuotaGuaranteeUsage
	// DeleteQuota of a quota below a parent quota with the gate on (the shape of the repaired
	// findings/C02-delete-keeps-guarantee.md) is generated like any other deletion
	const deepDelete = true
	palC := make([]int64, 4+r.Intn(3))
	palM := make([]int64, 4+r.Intn(3))
	for j := range palC {
		switch {
		case style == "small" || (style == "mixed" && r.Intn(2) == 0):
			palC[j] = int64(r.Intn(13))
		case style == "subcore" || style == "mixed": // sub-core amounts: many share their rounded-up whole core
			palC[j] = int64(100 * r.Intn(40))
			if r.Intn(4) == 0 {
				palC[j] = []int64{1, 999, 1000, 1001, 1500, 1999, 2001, 250}[r.Intn(8)]
			}
		default:
			palC[j] = 1000*int64(r.Intn(2000)) + int64(r.Intn(1000))
		}
	}
	for j := range palM {
		switch {
		case style == "small" || (style == "mixed" && r.Intn(2) == 0):
			palM[j] = int64(r.Intn(13))
		case style == "subcore":
			palM[j] = (int64(1) << 30) * int64(r.Intn(16))
		default:
			palM[j] = int64(1)<<40 + r.Int63n(1<<42)
			if r.Intn(4) == 0 {
				palM[j] = vtQty(r, int64(1)<<50)
			}
		}
	}
	qc := func() int64 { return palC[r.Intn(len(palC))] }
	qm := func() int64 { return palM[r.Intn(len(palM))] }
	bigC := func() int64 {
		if r.Intn(4) == 0 {
			return qc()
		}
		switch style {
		case "small":
			return 20 + int64(r.Intn(30))
		case "subcore", "mixed":
			return 4000 + int64(100*r.Intn(120))
		}
		return 4000000 + r.Int63n(4000000)
	}
	bigM := func() int64 {
		if r.Intn(4) == 0 {
			return qm()
		}
		switch style {
		case "small":
			return 20 + int64(r.Intn(30))
		case "subcore":
			return (int64(1) << 30) * int64(16+r.Intn(48))
		}
		return int64(1)<<52 + r.Int63n(1<<40)
	}
	plan := make([]vtC02MgrMeta, K+1)
	for k := 1; k <= K; k++ {
		plan[k] = vtC02MgrMeta{parent: 0, lend: r.Intn(3) != 0}
	}
	if shape != "flat" {
		plan[1].isParent = true
		for k := 2; k <= K; k++ {
			if r.Intn(3) != 0 {
				plan[k].parent = 1
			}
		}
		if shape == "three" {
			plan[2].isParent, plan[2].parent = true, 1
			for k := 3; k <= K; k++ {
				if r.Intn(2) == 0 {
					plan[k].parent = 2
				}
			}
		}
	}
	cur := make([]vtC02DimFig, K+1)
	ops := []int64{}
	emit := func(code int64, k int, a, b, c, d, e, f, g, h int64) { ops = append(ops, code, int64(k), a, b, c, d, e, f, g, h) }
	parentOK := func(k int) bool {
		p := plan[k].parent
		return p == 0 || (cur[p].live && cur[p].meta.isParent)
	}
	hasChildren := func(k int) bool {
		for j := 1; j <= K; j++ {
			if cur[j].live && cur[j].meta.parent == k {
				return true
			}
		}
		return false
	}
	update := func(k int, mxc, mxm, mnc, mnm, wc, wm int64) {
		m := plan[k]
		if cur[k].live {
			m = cur[k].meta
		}
		var fl int64
		if m.isParent {
			fl |= 1
		}
		if m.lend {
			fl |= 2
		}
		emit(0, k, int64(m.parent), fl, mxc, mxm, mnc, mnm, wc, wm)
		if cur[k].live || parentOK(k) {
			f := &cur[k]
			f.live, f.meta, f.mxc, f.mxm, f.mnc, f.mnm, f.wc, f.wm = true, m, mxc, mxm, mnc, mnm, wc, wm
		}
	}
	leafOK := func(k int) bool { return cur[k].live && !cur[k].meta.isParent }
	pod := func(k, slot int, c, m int64, asg bool) {
		var a int64
		if asg {
			a = 1
		}
		emit(2, k, int64(slot), c, m, a, 0, 0, 0, 0)
		if leafOK(k) {
			f := &cur[k]
			f.pc[slot], f.pm[slot], f.has[slot], f.asg[slot] = c, m, c != 0 || m != 0, asg && (c != 0 || m != 0)
		}
	}
	podReq := func() (int64, int64) {
		switch r.Intn(5) {
		case 0: // cpu only
			return qc(), 0
		case 1: // memory only
			return 0, qm()
		}
		return qc(), qm()
	}
	del := func(k int) {
		emit(1, k, 0, 0, 0, 0, 0, 0, 0, 0)
		if cur[k].live && !hasChildren(k) {
			cur[k] = vtC02DimFig{}
		}
	}
	total := func() {
		var loC, hiC, loM, hiM int64
		for k := 1; k <= K; k++ {
			if cur[k].live && cur[k].meta.parent == 0 {
				loC += cur[k].mnc
				loM += cur[k].mnm
			}
			if cur[k].live {
				hiC += cur[k].pc[0] + cur[k].pc[1]
				hiM += cur[k].pm[0] + cur[k].pm[1]
			}
		}
		pick := func(lo, hi int64) int64 {
			if hi < lo {
				hi = lo
			}
			switch r.Intn(5) {
			case 0:
				return lo
			case 1:
				return hi + int64(r.Intn(3))
			case 2:
				if lo > 0 {
					return r.Int63n(lo + 1)
				}
				return 0
			}
			return lo + r.Int63n(hi-lo+1)
		}
		emit(3, 0, pick(loC, hiC), pick(loM, hiM), 0, 0, 0, 0, 0, 0)
	}
	pickLive := func(leaf bool) int {
		c := []int{}
		for k := 1; k <= K; k++ {
			if cur[k].live && (!leaf || !cur[k].meta.isParent) {
				c = append(c, k)
			}
		}
		if len(c) == 0 {
			return 1 + r.Intn(K)
		}
		return c[r.Intn(len(c))]
	}
	pickPod := func() (int, int, bool) {
		c := [][2]int{}
		for k := 1; k <= K; k++ {
			for s := 0; s < 2; s++ {
				if leafOK(k) && cur[k].has[s] {
					c = append(c, [2]int{k, s})
				}
			}
		}
		if len(c) == 0 {
			return 0, 0, false
		}
		x := c[r.Intn(len(c))]
		return x[0], x[1], true
	}
	weights := func() (int64, int64) {
		switch r.Intn(4) {
		case 0:
			return 0, 0 // "same as max"
		case 1:
			return 0, qm() // a zero weight in one dimension only
		}
		return qc(), qm()
	}
	// build most of the tree, top-down, and put pods into the leaves
	for k := 1; k <= K; k++ {
		if r.Intn(6) == 0 && !plan[k].isParent {
			continue
		}
		wc, wm := weights()
		update(k, bigC(), bigM(), qc(), qm(), wc, wm)
	}
	for k := 1; k <= K; k++ {
		if leafOK(k) && r.Intn(4) != 0 {
			c, m := podReq()
			pod(k, 0, c, m, r.Intn(4) == 0)
		}
	}
	total()
	limit := len(ops)/10 + 5 + r.Intn(9)
	for len(ops)/10 < limit {
		switch x := r.Intn(24); {
		case x < 4:
			c, m := podReq()
			pod(pickLive(true), r.Intn(2), c, m, r.Intn(4) == 0)
		case x < 5:
			pod(pickLive(true), r.Intn(2), 0, 0, false)
		case x < 8: // reserve
			if k, s, ok := pickPod(); ok {
				emit(5, k, int64(s), 0, 0, 0, 0, 0, 0, 0)
				cur[k].asg[s] = true
			} else {
				emit(5, 1+r.Intn(K), 0, 0, 0, 0, 0, 0, 0, 0)
			}
		case x < 10: // unreserve
			if k, s, ok := pickPod(); ok {
				emit(6, k, int64(s), 0, 0, 0, 0, 0, 0, 0)
				cur[k].asg[s] = false
			}
		case x < 13: // resize in place: mostly one dimension only, mostly by a sub-core amount
			if k, s, ok := pickPod(); ok {
				c, m := cur[k].pc[s], cur[k].pm[s]
				switch r.Intn(4) {
				case 0:
					m = qm()
				case 1:
					c, m = qc(), qm()
				default:
					c += int64(100 * (r.Intn(9) - 4))
					if style == "small" {
						c = qc()
					}
					if c < 0 {
						c = 0
					}
				}
				if c == 0 && m == 0 {
					c = 1
				}
				emit(7, k, int64(s), c, m, 0, 0, 0, 0, 0)
				cur[k].pc[s], cur[k].pm[s] = c, m
			}
		case x < 15: // min changes (one dimension or both)
			k := pickLive(false)
			f := cur[k]
			switch r.Intn(3) {
			case 0:
				f.mnc = qc()
			case 1:
				f.mnm = qm()
			default:
				f.mnc, f.mnm = qc(), qm()
			}
			update(k, f.mxc, f.mxm, f.mnc, f.mnm, f.wc, f.wm)
		case x < 16: // max changes
			k := pickLive(false)
			f := cur[k]
			if r.Intn(2) == 0 {
				f.mxc = bigC()
			} else {
				f.mxc, f.mxm = bigC(), bigM()
			}
			update(k, f.mxc, f.mxm, f.mnc, f.mnm, f.wc, f.wm)
		case x < 17: // weight changes
			k := pickLive(false)
			f := cur[k]
			wc, wm := weights()
			update(k, f.mxc, f.mxm, f.mnc, f.mnm, wc, wm)
		case x < 19:
			total()
		case x < 20:
			k := pickLive(true)
			if deepDelete || plan[k].parent == 0 {
				del(k)
			}
		case x < 21:
			emit(4, 0, 0, 0, 0, 0, 0, 0, 0, 0)
		case x < 22: // the same object again
			k := pickLive(false)
			f := cur[k]
			update(k, f.mxc, f.mxm, f.mnc, f.mnm, f.wc, f.wm)
		case x < 23: // a name that is not live yet
			k := 1 + r.Intn(K)
			if !cur[k].live {
				wc, wm := weights()
				update(k, bigC(), bigM(), qc(), qm(), wc, wm)
			}
		default: // delete a leaf and create it again with the same figures and pods
			k := pickLive(true)
			f := cur[k]
			if !f.live || f.meta.isParent || !(deepDelete || plan[k].parent == 0) {
				continue
			}
			del(k)
			update(k, f.mxc, f.mxm, f.mnc, f.mnm, f.wc, f.wm)
			for s := 0; s < 2; s++ {
				if f.has[s] {
					pod(k, s, f.pc[s], f.pm[s], f.asg[s])
				}
			}
		}
	}
	hdr := int64(K)
	label := style + "-" + shape
	if gate {
		hdr += 100
		label += "-gate"
	}
	in := append([]int64{hdr, int64(len(ops) / 10)}, ops...)
	return label, in
}

func TestVerifC02Dims(t *testing.T) { vtMain(t, "C02", vtC02DimGen, vtC02DimExec) }
