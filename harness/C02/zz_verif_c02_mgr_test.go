//go:build verif

package core

import (
	"fmt"
	"math/rand"
	"testing"

	v1 "k8s.io/api/core/v1"
	"k8s.io/apimachinery/pkg/api/resource"
	metav1 "k8s.io/apimachinery/pkg/apis/meta/v1"

	"github.com/koordinator-sh/koordinator/apis/extension"
	"github.com/koordinator-sh/koordinator/apis/thirdparty/scheduler-plugins/pkg/apis/scheduling/v1alpha1"
)

// C02 stream "manager": GroupQuotaManager on 1–3-level quota trees, one resource dimension.
//
// input: K+100*scale n then n records  code k a b c d e   (scale: EnableMinQuotaScale)
//	0 UpdateQuota(k, parent=a, flags=b (1: isParent, 2: allowLent), max=c, min=d, sharedWeight=e)
//	1 DeleteQuota(k)   2 the pod of (k, slot a) is replaced by one requesting b (0: just removed)
//	3 cluster total = a   4 observe only
// observable: after EVERY op RefreshRuntime(q01..qK) in name order, -1 for a name that is not live
// (with scaling on: the fourth of four such passes — scaled mins are brought up to date lazily, one
// quota per RefreshRuntime).
// Ops that GroupQuotaManager's callers never issue are skipped here and in the model alike:
// creating under a parent that is not a live parent quota, changing the parent of a live quota (its
// labels are then ignored too), flipping is-parent on a quota with children or pods, deleting a quota
// that still has children, pods in a parent quota.  A label edit (allow-lent / is-parent, same parent)
// takes the resetQuotaNoLock path.
func vtC02MgrName(k int) string {
	if k == 0 {
		return extension.RootQuotaName
	}
	return fmt.Sprintf("q%02d", k)
}

type vtC02MgrMeta struct {
	parent         int
	isParent, lend bool
}

func vtC02MgrQuota(k int, m vtC02MgrMeta, max, min, w int64) *v1alpha1.ElasticQuota {
	q := &v1alpha1.ElasticQuota{
		ObjectMeta: metav1.ObjectMeta{Name: vtC02MgrName(k), Annotations: map[string]string{}, Labels: map[string]string{}},
		Spec:       v1alpha1.ElasticQuotaSpec{Max: vtC02CalcQty(max), Min: vtC02CalcQty(min)},
	}
	q.Annotations[extension.AnnotationSharedWeight] = fmt.Sprintf("{\"memory\":\"%d\"}", w)
	q.Labels[extension.LabelQuotaParent] = vtC02MgrName(m.parent)
	q.Labels[extension.LabelAllowLentResource] = fmt.Sprintf("%v", m.lend)
	q.Labels[extension.LabelQuotaIsParent] = fmt.Sprintf("%v", m.isParent)
	return q
}

func vtC02MgrExec(in []int64) []int64 {
	K, n := int(in[0]%100), int(in[1])
	scale := in[0] >= 100
	huge := v1.ResourceList{vtC02CalcDim: *resource.NewQuantity(1<<62, resource.BinarySI)}
	gqm := NewGroupQuotaManager("", scale, huge, huge)
	meta := map[int]vtC02MgrMeta{}
	pods := map[[2]int]*v1.Pod{}
	var total int64
	gen := 0
	obs := make([]int64, 0, K*n)
	children := func(k int) bool {
		for _, m := range meta {
			if m.parent == k {
				return true
			}
		}
		return false
	}
	for i := 0; i < n; i++ {
		rec := in[2+7*i : 9+7*i]
		code, k := rec[0], int(rec[1])
		m, isLive := meta[k]
		switch code {
		case 0:
			if !isLive {
				m = vtC02MgrMeta{parent: int(rec[2]), isParent: rec[3]&1 != 0, lend: rec[3]&2 != 0}
				pm, pl := meta[m.parent]
				if k == 0 || (m.parent != 0 && !(pl && pm.isParent)) {
					break
				}
				meta[k] = m
			} else if int(rec[2]) == m.parent {
				// a label edit (same parent): allow-lent freely, is-parent only on a quota without children and pods
				m.lend = rec[3]&2 != 0
				quiet := !children(k)
				for key := range pods {
					if key[0] == k {
						quiet = false
					}
				}
				if quiet {
					m.isParent = rec[3]&1 != 0
				}
				meta[k] = m
			}
			if err := gqm.UpdateQuota(vtC02MgrQuota(k, m, rec[4], rec[5], rec[6])); err != nil {
				panic(err)
			}
		case 1:
			if isLive && !children(k) {
				if err := gqm.DeleteQuota(vtC02MgrQuota(k, m, 0, 0, 0)); err != nil {
					panic(err)
				}
				delete(meta, k)
				for key := range pods {
					if key[0] == k {
						delete(pods, key)
					}
				}
			}
		case 2:
			if isLive && !m.isParent {
				key := [2]int{k, int(rec[2])}
				if old := pods[key]; old != nil {
					gqm.OnPodDelete(vtC02MgrName(k), old)
					delete(pods, key)
				}
				if rec[3] != 0 {
					gen++
					p := &v1.Pod{
						ObjectMeta: metav1.ObjectMeta{Namespace: "default", Name: fmt.Sprintf("p%d-%d-%d", k, rec[2], gen)},
						Spec: v1.PodSpec{Containers: []v1.Container{{
							Name:      "c",
							Resources: v1.ResourceRequirements{Requests: vtC02CalcQty(rec[3])},
						}}},
					}
					gqm.OnPodAdd(vtC02MgrName(k), p)
					pods[key] = p
				}
			}
		case 3:
			gqm.UpdateClusterTotalResource(vtC02CalcQty(rec[2] - total))
			total = rec[2]
		}
		passes := 1
		if scale {
			passes = 4
		}
		for pass := 1; pass <= passes; pass++ {
			for id := 1; id <= K; id++ {
				if _, ok := meta[id]; !ok {
					if pass == passes {
						obs = append(obs, -1)
					}
					continue
				}
				rt := gqm.RefreshRuntime(vtC02MgrName(id))
				if pass == passes {
					q := rt[vtC02CalcDim]
					obs = append(obs, q.Value())
				}
			}
		}
	}
	return obs
}

type vtC02MgrFig struct {
	live        bool
	meta        vtC02MgrMeta
	max, min, w int64
	pod         [2]int64
}

func vtC02MgrGen(r *rand.Rand, i int) (string, []int64) {
	style := []string{"small", "small", "large", "large", "bytes", "mixed"}[r.Intn(6)]
	shape := []string{"flat", "two", "two", "three"}[r.Intn(4)]
	K := 3 + r.Intn(3)
	scale := r.Intn(2) == 0 // EnableMinQuotaScale
	// "exact": scaling on, non-round values, every leaf asks for more than its min and the cluster total is
	// (mostly) EXACTLY the sum of the top-level minimums — nothing has to be scaled, nothing may be lost
	exact := scale && style != "small" && r.Intn(4) != 0
	pal := make([]int64, 4+r.Intn(3))
	for j := range pal {
		switch {
		case style == "small" || (style == "mixed" && r.Intn(2) == 0):
			pal[j] = int64(r.Intn(13))
		case style == "bytes": // byte-scale values that are not round in binary: products leave the 53-bit mantissa
			pal[j] = 10000000000 + r.Int63n(400000000000)
			if r.Intn(3) == 0 {
				pal[j] = []int64{100000000001, 33333333340, 77777777777, 123456789012, 99999999999}[r.Intn(5)]
			}
		default:
			pal[j] = int64(1)<<40 + r.Int63n(1<<42)
			if r.Intn(4) == 0 {
				pal[j] = vtQty(r, int64(1)<<50)
			}
		}
	}
	q := func() int64 { return pal[r.Intn(len(pal))] }
	big := func() int64 {
		if r.Intn(3) == 0 {
			return q()
		}
		if style == "small" {
			return 20 + int64(r.Intn(30))
		}
		if style == "bytes" {
			return 2000000000000 + r.Int63n(1000000000000)
		}
		return int64(1)<<52 + r.Int63n(1<<40)
	}
	if exact && r.Intn(2) == 0 {
		shape = "flat"
	}
	// the planned topology: parent and flags of every name
	plan := make([]vtC02MgrMeta, K+1)
	for k := 1; k <= K; k++ {
		plan[k] = vtC02MgrMeta{parent: 0, lend: r.Intn(3) != 0}
	}
	if shape != "flat" {
		plan[1].isParent = true
		for k := 2; k <= K; k++ {
			if r.Intn(3) != 0 {
				plan[k].parent = 1
			}
		}
		if shape == "three" {
			plan[2].isParent, plan[2].parent = true, 1
			for k := 3; k <= K; k++ {
				if r.Intn(2) == 0 {
					plan[k].parent = 2
				}
			}
		}
	}
	cur := make([]vtC02MgrFig, K+1)
	ops := []int64{}
	emit := func(code int64, k int, a, b, c, d, e int64) { ops = append(ops, code, int64(k), a, b, c, d, e) }
	parentOK := func(k int) bool {
		p := plan[k].parent
		return p == 0 || (cur[p].live && cur[p].meta.isParent)
	}
	hasChildren := func(k int) bool {
		for j := 1; j <= K; j++ {
			if cur[j].live && cur[j].meta.parent == k {
				return true
			}
		}
		return false
	}
	update := func(k int, mx, mn, w int64) {
		m := plan[k]
		var fl int64
		if m.isParent {
			fl |= 1
		}
		if m.lend {
			fl |= 2
		}
		emit(0, k, int64(m.parent), fl, mx, mn, w)
		if cur[k].live || parentOK(k) {
			ew := w
			if ew == 0 {
				ew = mx
			}
			cur[k].live, cur[k].meta, cur[k].max, cur[k].min, cur[k].w = true, m, mx, mn, ew
		}
	}
	pod := func(k, slot int, v int64) {
		emit(2, k, int64(slot), v, 0, 0, 0)
		if cur[k].live && !cur[k].meta.isParent {
			cur[k].pod[slot] = v
		}
	}
	del := func(k int) {
		emit(1, k, 0, 0, 0, 0, 0)
		if cur[k].live && !hasChildren(k) {
			cur[k] = vtC02MgrFig{}
		}
	}
	total := func() {
		var lo, hi int64
		for k := 1; k <= K; k++ {
			if cur[k].live && cur[k].meta.parent == 0 {
				lo += cur[k].min
			}
			if cur[k].live {
				hi += cur[k].pod[0] + cur[k].pod[1]
			}
		}
		if hi < lo {
			hi = lo
		}
		var t int64
		x := r.Intn(5)
		if (scale && r.Intn(3) == 0) || (exact && r.Intn(3) != 0) {
			x = 0 // exactly the sum of the minimums: nothing has to be scaled
		}
		switch x {
		case 0:
			t = lo
		case 1:
			t = hi + int64(r.Intn(3))
		case 2:
			if lo > 0 {
				t = r.Int63n(lo + 1)
			}
		default:
			t = lo + r.Int63n(hi-lo+1)
		}
		emit(3, 0, t, 0, 0, 0, 0)
	}
	pickLive := func(leaf bool) int {
		c := []int{}
		for k := 1; k <= K; k++ {
			if cur[k].live && (!leaf || !cur[k].meta.isParent) {
				c = append(c, k)
			}
		}
		if len(c) == 0 {
			return 1 + r.Intn(K)
		}
		return c[r.Intn(len(c))]
	}
	// build most of the tree, top-down, and put pods into the leaves
	for k := 1; k <= K; k++ {
		if r.Intn(6) == 0 && !plan[k].isParent {
			continue
		}
		w := q()
		if r.Intn(2) == 0 {
			w = 0 // "same as max"
		}
		update(k, big(), q(), w)
	}
	for k := 1; k <= K; k++ {
		if cur[k].live && !cur[k].meta.isParent && (exact || r.Intn(4) != 0) {
			if exact {
				pod(k, 0, cur[k].min+q())
			} else {
				pod(k, 0, q())
			}
		}
	}
	total()
	limit := len(ops)/7 + 4 + r.Intn(8)
	for len(ops)/7 < limit {
		if exact && r.Intn(2) == 0 {
			// a fresh non-round min for a top-level quota, then again a total that is (mostly) exactly the sum
			c := []int{}
			for k := 1; k <= K; k++ {
				if cur[k].live && cur[k].meta.parent == 0 {
					c = append(c, k)
				}
			}
			if len(c) > 0 {
				k := c[r.Intn(len(c))]
				v := 10000000000 + r.Int63n(400000000000)
				if style == "large" {
					v = int64(1)<<40 + r.Int63n(1<<42)
				}
				update(k, cur[k].max, v, cur[k].w)
				if !cur[k].meta.isParent {
					pod(k, 0, v+q())
				}
				total()
				continue
			}
		}
		if r.Intn(7) == 0 { // a label edit: allow-lent of any quota, or is-parent of a quiet one -> tree reset
			k := pickLive(false)
			if cur[k].live {
				quiet := !hasChildren(k) && cur[k].pod[0] == 0 && cur[k].pod[1] == 0
				if quiet && r.Intn(2) == 0 {
					plan[k].isParent = !plan[k].isParent
				} else {
					plan[k].lend = !plan[k].lend
				}
				update(k, cur[k].max, cur[k].min, cur[k].w)
				continue
			}
		}
		switch x := r.Intn(20); {
		case x < 5:
			pod(pickLive(true), r.Intn(2), q())
		case x < 6:
			pod(pickLive(true), r.Intn(2), 0)
		case x < 9: // min changes
			k := pickLive(false)
			update(k, cur[k].max, q(), cur[k].w)
		case x < 10: // max changes
			k := pickLive(false)
			update(k, big(), cur[k].min, cur[k].w)
		case x < 11: // weight changes
			k := pickLive(false)
			update(k, cur[k].max, cur[k].min, q())
		case x < 13:
			total()
		case x < 14:
			del(pickLive(true))
		case x < 15:
			emit(4, 0, 0, 0, 0, 0, 0)
		case x < 16 && scale && shape != "flat": // a parent quota that can get exactly the sum of its children's minimums
			var sum int64
			for j := 1; j <= K; j++ {
				if cur[j].live && cur[j].meta.parent == 1 {
					sum += cur[j].min
				}
			}
			if cur[1].live && sum > 0 {
				update(1, sum+int64(r.Intn(2)), cur[1].min, cur[1].w)
			}
		case x < 16: // the same object again
			k := pickLive(false)
			update(k, cur[k].max, cur[k].min, cur[k].w)
		case x < 17: // a name that is not live yet
			k := 1 + r.Intn(K)
			if !cur[k].live {
				update(k, big(), q(), q())
			} else {
				pod(k, 0, q())
			}
		default: // delete a leaf and create it again with the same figures and pods
			k := pickLive(true)
			f := cur[k]
			if !f.live || f.meta.isParent {
				continue
			}
			del(k)
			update(k, f.max, f.min, f.w)
			for s := 0; s < 2; s++ {
				if f.pod[s] != 0 {
					pod(k, s, f.pod[s])
				}
			}
		}
	}
	hdr := int64(K)
	label := style + "-" + shape
	if scale {
		hdr += 100
		label += "-scale"
	}
	if exact {
		label += "-exact"
	}
	in := append([]int64{hdr, int64(len(ops) / 7)}, ops...)
	return label, in
}

func TestVerifC02Mgr(t *testing.T) { vtMain(t, "C02", vtC02MgrGen, vtC02MgrExec) }
