//go:build verif

package core

import (
	"fmt"
	"math/rand"
	"testing"
)

// input:  total k  then k records  (name-rank request weight min guarantee lend) in insertion order
// observable: runtimeQuota of name rank 1..k, twice: a second, fresh tree filled in reverse
// insertion order (and walked in whatever order Go's map iteration picks) must give the same.
func vtC02Exec(in []int64) []int64 {
	total, k := in[0], int(in[1])
	obs := make([]int64, 0, 2*k)
	for pass := 0; pass < 2; pass++ {
		qt := NewQuotaTree()
		for j := 0; j < k; j++ {
			i := j
			if pass == 1 {
				i = k - 1 - j
			}
			rec := in[2+6*i : 8+6*i]
			qt.insert(fmt.Sprintf("q%02d", rec[0]), rec[2], rec[1], rec[3], rec[4], rec[5] != 0)
		}
		qt.redistribution(total)
		for i := 1; i <= k; i++ {
			if ok, n := qt.find(fmt.Sprintf("q%02d", i)); ok {
				obs = append(obs, n.runtimeQuota)
			} else {
				obs = append(obs, -1)
			}
		}
	}
	return obs
}

func vtC02Gen(r *rand.Rand, i int) (string, []int64) {
	style := []string{"small", "small", "small", "large", "large", "mixed", "degenerate"}[r.Intn(7)]
	k := 1 + r.Intn(8)
	if style == "degenerate" && r.Intn(4) == 0 {
		k = 0
	}
	maxv := int64(1) << 58
	q := func() int64 {
		switch style {
		case "small":
			return int64(r.Intn(13))
		case "large":
			return vtQty(r, maxv)
		case "mixed":
			if r.Intn(2) == 0 {
				return int64(r.Intn(13))
			}
			return vtQty(r, maxv)
		default:
			return int64(r.Intn(4))
		}
	}
	perm := r.Perm(k)
	in := []int64{0, int64(k)}
	var sumInit, sumReq int64
	for _, p := range perm {
		req, w, mn, g := q(), q(), q(), q()
		if style == "degenerate" {
			switch r.Intn(3) {
			case 0:
				w = 0
			case 1:
				mn, g = 0, 0
			}
		}
		if r.Intn(3) != 0 {
			g = 0 // guarantee is usually unset
		}
		lend := r.Intn(2)
		in = append(in, int64(p+1), req, w, mn, g, int64(lend))
		m := mn
		if g > m {
			m = g
		}
		sumInit += m
		sumReq += req
	}
	var total int64
	switch r.Intn(6) {
	case 0:
		total = vtQty(r, int64(1)<<62)
	case 1:
		if sumInit > 0 {
			total = r.Int63n(sumInit + 1) // at or below the sum of minimums
		}
	case 2:
		total = sumInit + int64(r.Intn(5))
	default:
		hi := sumInit + sumReq + 3
		total = r.Int63n(hi)
	}
	in[0] = total
	return style, in
}

func TestVerifC02(t *testing.T) { vtMain(t, "C02", vtC02Gen, vtC02Exec) }
