//go:build linux

// Pure-Go stand-in for perf_group_linux.go (cgo, needs libpfm headers that are absent in
// the sandbox). Injected with `go test -overlay` only; same exported API, no behaviour.
// It is outside every verified property: it only lets the koordlet packages link.
package perf_group

import (
	"os"
	"sync"
	"syscall"
)

const (
	CYCLES       = "cycles"
	INSTRUCTIONS = "instructions"
)

var (
	BufPools  map[int]*sync.Pool
	EventsMap = map[string][]string{
		"CPICollector": {"cycles", "instructions"},
	}
)

type PerfGroupCollector struct{}

func InitBufferPool(eventsNums map[int]struct{}) {}
func LibInit()                                   {}
func LibFinalize()                               {}

func NewPerfGroupCollector(cgroupFile *os.File, cpus []int, events []string, syscallFunc func(trap, a1, a2, a3, a4, a5, a6 uintptr) (r1, r2 uintptr, err syscall.Errno)) (*PerfGroupCollector, error) {
	return &PerfGroupCollector{}, nil
}

func GetAndStartPerfGroupCollectorOnContainer(cgroupFile *os.File, cpus []int, events []string) (*PerfGroupCollector, error) {
	return &PerfGroupCollector{}, nil
}

func GetContainerPerfResult(collector *PerfGroupCollector) (map[string]float64, error) {
	return map[string]float64{}, nil
}

func GetContainerCyclesAndInstructionsGroup(collector *PerfGroupCollector) (float64, float64, error) {
	return 0, 0, nil
}
