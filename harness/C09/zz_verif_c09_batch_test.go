//go:build verif

package batchresource

import (
	"encoding/json"
	"fmt"
	"math/rand"
	"sync"
	"testing"
	"time"

	vttopo "github.com/k8stopologyawareschedwg/noderesourcetopology-api/pkg/apis/topology/v1alpha1"
	corev1 "k8s.io/api/core/v1"
	"k8s.io/apimachinery/pkg/api/resource"
	metav1 "k8s.io/apimachinery/pkg/apis/meta/v1"
	"k8s.io/apimachinery/pkg/runtime"
	clientgoscheme "k8s.io/client-go/kubernetes/scheme"
	vtclock "k8s.io/utils/clock/testing"
	"k8s.io/utils/ptr"
	"sigs.k8s.io/controller-runtime/pkg/client/fake"

	"github.com/koordinator-sh/koordinator/apis/configuration"
	"github.com/koordinator-sh/koordinator/apis/extension"
	slov1alpha1 "github.com/koordinator-sh/koordinator/apis/slo/v1alpha1"
	"github.com/koordinator-sh/koordinator/pkg/slo-controller/noderesource/framework"
	"github.com/koordinator-sh/koordinator/pkg/util/sloconfig"
)

// Wire format: see coq/C09/Extract_batch.v.  The observable is the projection of
// Plugin.Calculate's ResourceItems (quantities, zone quantities, Reset) followed by what
// Plugin.Prepare then publishes on a node that still carries an old batch amount.

var (
	vtC09Scheme     *runtime.Scheme
	vtC09SchemeOnce sync.Once
	vtC09Now        = time.Unix(1700000000, 0)
)

type vtC09Cur struct {
	in []int64
	i  int
}

func (c *vtC09Cur) next() int64 {
	if c.i >= len(c.in) {
		panic("verif harness: short input")
	}
	v := c.in[c.i]
	c.i++
	return v
}

func vtC09Prio(code int64) extension.PriorityClass {
	switch code {
	case 1:
		return extension.PriorityProd
	case 2:
		return extension.PriorityMid
	case 3:
		return extension.PriorityBatch
	case 4:
		return extension.PriorityFree
	case 5:
		return extension.PriorityClass("koord-unknown")
	}
	return extension.PriorityNone
}

func vtC09Policy(code int64) *configuration.CalculatePolicy {
	var p configuration.CalculatePolicy
	switch code {
	case 1:
		p = configuration.CalculateByPodUsage
	case 2:
		p = configuration.CalculateByPodRequest
	case 3:
		p = configuration.CalculateByPodMaxUsageRequest
	case 0:
		return nil
	default:
		p = configuration.CalculatePolicy("somethingElse")
	}
	return &p
}

// cpu in milli-cores, memory in bytes; a zero amount is left out of the list when omitZero is set
func vtC09RL(cpu, mem int64, omitZero bool) corev1.ResourceList {
	rl := corev1.ResourceList{}
	if cpu != 0 || !omitZero {
		rl[corev1.ResourceCPU] = *resource.NewMilliQuantity(cpu, resource.DecimalSI)
	}
	if mem != 0 || !omitZero {
		rl[corev1.ResourceMemory] = *resource.NewQuantity(mem, resource.BinarySI)
	}
	return rl
}

func vtC09PctPtr(v int64) *int64 {
	if v < 0 {
		return nil
	}
	return ptr.To[int64](v)
}

// vtC09PodShape realises a total pod request (what k8s PodRequests reports) in one of five container
// layouts: one container; two containers; an init container that dominates smaller regular containers;
// a container plus pod overhead; a restartable (sidecar) init container next to a regular container.
func vtC09PodShape(pod *corev1.Pod, i int, reqCPU, reqMem int64, rl func(cpu, mem int64, omitZero bool) corev1.ResourceList) {
	ctr := func(name string, cpu, mem int64, omitZero bool) corev1.Container {
		return corev1.Container{Name: name, Resources: corev1.ResourceRequirements{Requests: rl(cpu, mem, omitZero)}}
	}
	switch i % 5 {
	case 1:
		c1c, c1m := reqCPU/3, reqMem/3
		pod.Spec.Containers = []corev1.Container{ctr("c1", c1c, c1m, false), ctr("c2", reqCPU-c1c, reqMem-c1m, true)}
	case 2:
		pod.Spec.InitContainers = []corev1.Container{ctr("i1", reqCPU/2, reqMem, true), ctr("i2", reqCPU, reqMem/2, false)}
		pod.Spec.Containers = []corev1.Container{ctr("c1", reqCPU/3, reqMem/3, true), ctr("c2", reqCPU/3, reqMem/3, false)}
	case 3:
		oc, om := reqCPU/4, reqMem/4
		pod.Spec.Containers = []corev1.Container{ctr("c1", reqCPU-oc, reqMem-om, true)}
		pod.Spec.Overhead = rl(oc, om, false)
	case 4:
		sc, sm := reqCPU/3, reqMem/3
		always := corev1.ContainerRestartPolicyAlways
		side := ctr("s1", sc, sm, false)
		side.RestartPolicy = &always
		pod.Spec.InitContainers = []corev1.Container{side}
		pod.Spec.Containers = []corev1.Container{ctr("c1", reqCPU-sc, reqMem-sm, true)}
	default:
		pod.Spec.Containers = []corev1.Container{ctr("c1", reqCPU, reqMem, true)}
	}
}

// vtC09LabelStr spells the ratio label of the given kind (coq/C09/Model.v label_scale): the decimal
// h/scale in one of the forms strconv.ParseFloat accepts; ok=false: no label.
func vtC09LabelStr(kind, h int64) (string, bool) {
	switch kind {
	case 0:
		return "", false
	case 1:
		return fmt.Sprintf("%d.%02d", h/100, h%100), true
	case 2:
		return "abc", true
	case 4:
		return fmt.Sprintf("%d.%03d", h/1000, h%1000), true
	case 5: // exponent form: (h/100).(h%100)e-1 = h/1000
		return fmt.Sprintf("%d.%02de-1", h/100, h%100), true
	case 6:
		if h < 10 && h%2 == 0 {
			return fmt.Sprintf(".%d", h), true
		}
		return fmt.Sprintf("+%d.%d", h/10, h%10), true
	case 7:
		return fmt.Sprintf("%d.%04d", h/10000, h%10000), true
	}
	return "-0.30", true
}

// vtC09LabelGen draws a label kind and its numerator: boundary-biased (0, 100 %, just below a whole
// percent, third-decimal 5, float-unfriendly values).
func vtC09LabelGen(r *rand.Rand, above100 bool) (int64, int64) {
	kind := []int64{0, 1, 1, 1, 2, 3, 4, 4, 5, 6, 7}[r.Intn(11)]
	scale := int64(100)
	switch kind {
	case 4, 5:
		scale = 1000
	case 6:
		scale = 10
	case 7:
		scale = 10000
	}
	var h int64
	switch r.Intn(8) {
	case 0:
		h = 0
	case 1:
		h = scale
	case 2:
		h = scale * 29 / 100 // 0.29*100 = 28.999999999999996
	case 3:
		// a whole percent plus a tail of .5 / .59 / .99 percent (third and fourth decimals)
		h = scale*int64(r.Intn(100))/100 + []int64{scale / 200, scale * 59 / 10000, scale * 99 / 10000, scale/100 - 1}[r.Intn(4)]
		if h < 0 {
			h = 0
		}
	case 4:
		h = scale - 1 // 0.9, 0.99, 0.999, 0.9999
	case 5:
		if above100 {
			h = scale + r.Int63n(scale*6/10+1)
		} else {
			h = r.Int63n(scale + 1)
		}
	default:
		h = r.Int63n(scale + 1)
	}
	if kind == 7 && h > 16383 {
		h = 16383
	}
	return kind, h
}

func vtC09BRun(x []int64) []int64 { return vtC09BRunWith(x, nil, nil) }

// vtC09BRunWith: with cfg == nil the cluster strategy is the one encoded in x; otherwise the node's
// strategy is resolved from cfg (stream "cfg": the handler's cache) and the 7 strategy integers of x
// are ignored. labels are added to the node.
func vtC09BRunWith(x []int64, cfg *configuration.ColocationCfg, labels map[string]string) []int64 {
	vtC09SchemeOnce.Do(func() {
		vtC09Scheme = runtime.NewScheme()
		_ = clientgoscheme.AddToScheme(vtC09Scheme)
		_ = vttopo.AddToScheme(vtC09Scheme)
	})
	c := &vtC09Cur{in: x}
	strategy := &configuration.ColocationStrategy{
		Enable:                     ptr.To[bool](true),
		ResourceDiffThreshold:      ptr.To[float64](0.1),
		UpdateTimeThresholdSeconds: ptr.To[int64](300),
	}
	strategy.CPUCalculatePolicy = vtC09Policy(c.next())
	strategy.MemoryCalculatePolicy = vtC09Policy(c.next())
	strategy.CPUReclaimThresholdPercent = ptr.To[int64](c.next())
	strategy.MemoryReclaimThresholdPercent = ptr.To[int64](c.next())
	strategy.BatchCPUThresholdPercent = vtC09PctPtr(c.next())
	strategy.BatchMemoryThresholdPercent = vtC09PctPtr(c.next())
	strategy.DegradeTimeMinutes = ptr.To[int64](c.next())
	age := c.next()
	capCPU, capMem, allocCPU, allocMem := c.next(), c.next(), c.next(), c.next()
	annoFlag, annoCPU, annoMem, annoR := c.next(), c.next(), c.next(), c.next()
	sysCPU, sysMem := c.next(), c.next()

	oldBatch := *resource.NewQuantity(777, resource.DecimalSI)
	node := &corev1.Node{
		ObjectMeta: metav1.ObjectMeta{Name: "n0", Annotations: map[string]string{}, Labels: map[string]string{}},
		Status: corev1.NodeStatus{
			Capacity:    vtC09RL(capCPU, capMem, false),
			Allocatable: vtC09RL(allocCPU, allocMem, false),
		},
	}
	for _, rn := range ResourceNames {
		node.Status.Capacity[rn] = oldBatch.DeepCopy()
		node.Status.Allocatable[rn] = oldBatch.DeepCopy()
	}
	if annoFlag != 0 {
		nres := extension.NodeReservation{Resources: vtC09RL(annoCPU, annoMem, true)}
		if annoR > 0 {
			if annoR == 1 {
				nres.ReservedCPUs = "0"
			} else {
				nres.ReservedCPUs = fmt.Sprintf("0-%d", annoR-1)
			}
		}
		data, err := json.Marshal(nres)
		if err != nil {
			panic(err)
		}
		node.Annotations[extension.AnnotationNodeReservation] = string(data)
	}

	nm := &slov1alpha1.NodeMetric{
		ObjectMeta: metav1.ObjectMeta{Name: "n0"},
		Status: slov1alpha1.NodeMetricStatus{
			NodeMetric: &slov1alpha1.NodeMetricInfo{
				SystemUsage: slov1alpha1.ResourceMap{ResourceList: vtC09RL(sysCPU, sysMem, true)},
			},
		},
	}
	if age >= 0 {
		nm.Status.UpdateTime = &metav1.Time{Time: vtC09Now.Add(-time.Duration(age) * time.Second)}
	}

	// NUMA zones
	nz := int(c.next())
	var nrt *vttopo.NodeResourceTopology
	if nz > 0 {
		nrt = &vttopo.NodeResourceTopology{ObjectMeta: metav1.ObjectMeta{Name: "n0"}}
		for i := 0; i < nz; i++ {
			zc, zm := c.next(), c.next()
			qc := *resource.NewMilliQuantity(zc, resource.DecimalSI)
			qm := *resource.NewQuantity(zm, resource.BinarySI)
			nrt.Zones = append(nrt.Zones, vttopo.Zone{
				Name: fmt.Sprintf("node-%d", i),
				Type: "Node",
				Resources: vttopo.ResourceInfoList{
					{Name: "cpu", Capacity: qc, Allocatable: qc, Available: qc},
					{Name: "memory", Capacity: qm, Allocatable: qm, Available: qm},
				},
			})
		}
	}
	cb := fake.NewClientBuilder().WithScheme(vtC09Scheme)
	if nrt != nil {
		cb = cb.WithObjects(nrt)
	}
	client = cb.Build()

	// host applications
	na := int(c.next())
	for i := 0; i < na; i++ {
		pr, cpu, mem := c.next(), c.next(), c.next()
		nm.Status.HostApplicationMetric = append(nm.Status.HostApplicationMetric, &slov1alpha1.HostApplicationMetricInfo{
			Name:     fmt.Sprintf("app%02d", i),
			Usage:    slov1alpha1.ResourceMap{ResourceList: vtC09RL(cpu, mem, i%2 == 0)},
			Priority: vtC09Prio(pr),
		})
	}

	// pods and their metrics
	np := int(c.next())
	podList := &corev1.PodList{}
	var podMetrics []*slov1alpha1.PodMetricInfo
	for i := 0; i < np; i++ {
		phase, plabel, pval, qlabel, kube := c.next(), c.next(), c.next(), c.next(), c.next()
		reqCPU, reqMem, has, mprio, useCPU, useMem, numa := c.next(), c.next(), c.next(), c.next(), c.next(), c.next(), c.next()
		pod := corev1.Pod{ObjectMeta: metav1.ObjectMeta{Name: fmt.Sprintf("p%02d", i), Namespace: "ns"}}
		switch phase {
		case 0:
			pod.Status.Phase = corev1.PodPending
		case 1:
			pod.Status.Phase = corev1.PodRunning
		case 2:
			pod.Status.Phase = corev1.PodSucceeded
		case 3:
			pod.Status.Phase = corev1.PodFailed
		case 5: // terminating, still running
			pod.Status.Phase = corev1.PodRunning
			pod.DeletionTimestamp = &metav1.Time{Time: vtC09Now}
		case 6:
			pod.Status.Phase = corev1.PodPending
			pod.DeletionTimestamp = &metav1.Time{Time: vtC09Now}
		default:
			pod.Status.Phase = corev1.PodUnknown
		}
		if plabel != 0 || (qlabel >= 1 && qlabel <= 6) {
			pod.Labels = map[string]string{}
		}
		if plabel != 0 {
			pod.Labels[extension.LabelPodPriorityClass] = string(vtC09Prio(plabel))
		}
		if pval >= 0 {
			pod.Spec.Priority = ptr.To[int32](int32(pval))
		}
		switch qlabel {
		case 1:
			pod.Labels[extension.LabelPodQoS] = string(extension.QoSLSE)
		case 2:
			pod.Labels[extension.LabelPodQoS] = string(extension.QoSLSR)
		case 3:
			pod.Labels[extension.LabelPodQoS] = string(extension.QoSLS)
		case 4:
			pod.Labels[extension.LabelPodQoS] = string(extension.QoSBE)
		case 5:
			pod.Labels[extension.LabelPodQoS] = string(extension.QoSSystem)
		case 6:
			pod.Labels[extension.LabelPodQoS] = "NOT-A-QOS"
		}
		switch kube {
		case 1:
			pod.Status.QOSClass = corev1.PodQOSGuaranteed
		case 2:
			pod.Status.QOSClass = corev1.PodQOSBurstable
		default:
			pod.Status.QOSClass = corev1.PodQOSBestEffort
		}
		vtC09PodShape(&pod, i, reqCPU, reqMem, vtC09RL)
		if numa != 0 {
			st := &extension.ResourceStatus{}
			for b := 0; b < 6; b++ {
				if numa&(1<<uint(b)) != 0 {
					st.NUMANodeResources = append(st.NUMANodeResources, extension.NUMANodeResource{Node: int32(b)})
				}
			}
			if err := extension.SetResourceStatus(&pod, st); err != nil {
				panic(err)
			}
		}
		podList.Items = append(podList.Items, pod)
		if has != 0 {
			podMetrics = append(podMetrics, &slov1alpha1.PodMetricInfo{
				Name: pod.Name, Namespace: "ns",
				PodUsage: slov1alpha1.ResourceMap{ResourceList: vtC09RL(useCPU, useMem, i%3 == 0)},
				Priority: vtC09Prio(mprio),
			})
		}
	}
	nd := int(c.next())
	for i := 0; i < nd; i++ {
		pr, cpu, mem := c.next(), c.next(), c.next()
		nm.Status.PodsMetric = append(nm.Status.PodsMetric, &slov1alpha1.PodMetricInfo{
			Name: fmt.Sprintf("d%02d", i), Namespace: "ns",
			PodUsage: slov1alpha1.ResourceMap{ResourceList: vtC09RL(cpu, mem, i%2 == 1)},
			Priority: vtC09Prio(pr),
		})
	}
	for i := len(podMetrics) - 1; i >= 0; i-- { // reported order is unrelated to the pod list order
		nm.Status.PodsMetric = append(nm.Status.PodsMetric, podMetrics[i])
	}

	// node-level strategy sources; the effective strategy is resolved by the real function
	if len(c.in)-c.i >= 9 {
		ak, a1, a2, a3, a4 := c.next(), c.next(), c.next(), c.next(), c.next()
		k1, h1, k2, h2 := c.next(), c.next(), c.next(), c.next()
		switch ak {
		case 0:
		case 1:
			data, err := json.Marshal(&configuration.ColocationStrategy{
				CPUReclaimThresholdPercent:    vtC09PctPtr(a1),
				MemoryReclaimThresholdPercent: vtC09PctPtr(a2),
				BatchCPUThresholdPercent:      vtC09PctPtr(a3),
				BatchMemoryThresholdPercent:   vtC09PctPtr(a4),
			})
			if err != nil {
				panic(err)
			}
			node.Annotations[extension.AnnotationNodeColocationStrategy] = string(data)
		case 2:
			node.Annotations[extension.AnnotationNodeColocationStrategy] = `{"cpuReclaimThresholdPercent": 3`
		default:
			node.Annotations[extension.AnnotationNodeColocationStrategy] = `{"cpuReclaimThresholdPercent":"thirty"}`
		}
		lbl := func(key string, kind, h int64) {
			if v, ok := vtC09LabelStr(kind, h); ok {
				node.Labels[key] = v
			}
		}
		lbl(extension.LabelCPUReclaimRatio, k1, h1)
		lbl(extension.LabelMemoryReclaimRatio, k2, h2)
	}
	// third-party allocations recorded on the node (Prepare subtracts those of priority koord-batch)
	tpKind := int64(0)
	if len(c.in)-c.i >= 3 {
		var tpCPU, tpMem int64
		tpKind, tpCPU, tpMem = c.next(), c.next(), c.next()
		brl := func(cpu, mem int64, omitZero bool) corev1.ResourceList {
			rl := corev1.ResourceList{}
			if cpu != 0 || !omitZero {
				rl[extension.BatchCPU] = *resource.NewQuantity(cpu, resource.DecimalSI)
			}
			if mem != 0 || !omitZero {
				rl[extension.BatchMemory] = *resource.NewQuantity(mem, resource.BinarySI)
			}
			return rl
		}
		var allocs []slov1alpha1.ThirdPartyAllocation
		switch tpKind {
		case 0:
		case 1:
			allocs = []slov1alpha1.ThirdPartyAllocation{{Name: "hadoop-yarn", Priority: extension.PriorityBatch, Resources: brl(tpCPU, tpMem, true)}}
		case 2:
			allocs = []slov1alpha1.ThirdPartyAllocation{
				{Name: "a", Priority: extension.PriorityBatch, Resources: brl(tpCPU/3, tpMem-tpMem/3, false)},
				{Name: "b", Priority: extension.PriorityProd, Resources: brl(tpCPU, tpMem, false)},
				{Name: "c", Priority: extension.PriorityBatch, Resources: brl(tpCPU-tpCPU/3, tpMem/3, true)},
			}
		case 3:
			node.Annotations[slov1alpha1.NodeThirdPartyAllocationsAnnotationKey] = `{"allocations": [{"name": "x", "priority": "koord-batch", "resources": {"kubernetes.io/batch-cpu": "lots"}}]}`
		default:
			allocs = []slov1alpha1.ThirdPartyAllocation{
				{Name: "m", Priority: extension.PriorityMid, Resources: brl(tpCPU, tpMem, false)},
				{Name: "f", Priority: extension.PriorityFree, Resources: brl(tpCPU, tpMem, false)},
			}
		}
		if allocs != nil {
			data, err := json.Marshal(&slov1alpha1.ThirdPartyAllocations{Allocations: allocs})
			if err != nil {
				panic(err)
			}
			node.Annotations[slov1alpha1.NodeThirdPartyAllocationsAnnotationKey] = string(data)
		}
	}
	// cpu-normalization ratio carried by the NodeResource (written there by the cpunormalization plugin)
	normKind, normH := int64(0), int64(0)
	if len(c.in)-c.i >= 2 {
		normKind, normH = c.next(), c.next()
	}
	for k, v := range labels {
		node.Labels[k] = v
	}
	if cfg == nil {
		cfg = &configuration.ColocationCfg{ColocationStrategy: *strategy}
	}
	strategy = sloconfig.GetNodeColocationStrategy(cfg, node)

	oldClock := Clock
	Clock = vtclock.NewFakeClock(vtC09Now)
	defer func() { Clock = oldClock }()

	p := &Plugin{}
	items, err := p.Calculate(strategy, node, podList, &framework.ResourceMetrics{NodeMetric: nm})
	if err != nil || len(items) != 2 || items[0].Name != extension.BatchCPU || items[1].Name != extension.BatchMemory {
		return []int64{-1}
	}
	// the item quantities as calculated (read before any Prepare)
	itemVals := []int64{}
	for _, it := range items {
		if it.Quantity == nil {
			itemVals = append(itemVals, -2)
		} else {
			itemVals = append(itemVals, it.Quantity.Value())
		}
	}
	nr := framework.NewNodeResource(items...)
	switch normKind {
	case 0:
	case 1:
		nr.Annotations[extension.AnnotationCPUNormalizationRatio] = fmt.Sprintf("%d.%02d", normH/100, normH%100)
	default:
		nr.Annotations[extension.AnnotationCPUNormalizationRatio] = "fast"
	}
	node2 := node.DeepCopy() // the node as fetched again for the status update
	// production (framework.RunNodePrepareExtenders) logs a Prepare error and goes on with the node as
	// Prepare left it; the only error generated here is the unparsable third-party annotation (kind 3)
	if err := p.Prepare(strategy, node, nr); err != nil && tpKind != 3 {
		return []int64{-2}
	}
	pubOf := func(n *corev1.Node, rn corev1.ResourceName) int64 {
		q, ok := n.Status.Allocatable[rn]
		if !ok {
			return -1
		}
		return q.Value()
	}
	pub := func(rn corev1.ResourceName) int64 { return pubOf(node, rn) }
	if items[0].Reset || items[1].Reset {
		return []int64{vtB(items[0].Reset && items[1].Reset && items[0].Quantity == nil && items[1].Quantity == nil),
			pub(extension.BatchCPU), pub(extension.BatchMemory)}
	}
	obs := []int64{0, pub(extension.BatchCPU), pub(extension.BatchMemory)}
	obs = append(obs, itemVals...)
	// Prepare is called again on the SAME NodeResource (need-sync check, then the status / meta update,
	// once more per conflict retry): what the repeated call publishes goes to the end of the observable
	var second []int64
	if vtC09SecondPrepare {
		if err := p.Prepare(strategy, node2, nr); err != nil && tpKind != 3 {
			return []int64{-2}
		}
		second = []int64{pubOf(node2, extension.BatchCPU), pubOf(node2, extension.BatchMemory)}
	}
	obs = append(obs, int64(len(items[0].ZoneQuantity)))
	for i := 0; i < len(items[0].ZoneQuantity); i++ {
		zn := fmt.Sprintf("node-%d", i)
		qc, ok1 := items[0].ZoneQuantity[zn]
		qm, ok2 := items[1].ZoneQuantity[zn]
		if !ok1 || !ok2 {
			obs = append(obs, -3, -3)
			continue
		}
		obs = append(obs, qc.Value(), qm.MilliValue())
	}
	return append(obs, second...)
}

// set by the batch stream only: the cfg stream keeps the single-Prepare observable
var vtC09SecondPrepare bool

func vtC09BExec(in []int64) []int64 {
	vtC09SecondPrepare = true
	defer func() { vtC09SecondPrepare = false }()
	k, delta := in[0], in[1]
	base := in[2:]
	obs := vtC09BRun(base)
	pert := append([]int64(nil), base...)
	if k >= 0 && int(k) < len(pert) {
		pert[k] += delta
	}
	return append(obs, vtC09BRun(pert)...)
}

// ---------------------------------------------------------------- generator

func vtC09BGen(r *rand.Rand, i int) (string, []int64) {
	style := []string{"typical", "typical", "typical", "tight", "tight", "small", "small", "huge", "odd"}[r.Intn(9)]
	nz := []int{0, 0, 1, 2, 2, 3, 4}[r.Intn(7)]
	if style == "huge" {
		nz = 0
	}
	var capCPU, capMem int64
	switch style {
	case "typical", "tight":
		capCPU = int64(1+r.Intn(128)) * 1000
		capMem = int64(1+r.Intn(1024)) << 30
		if r.Intn(4) == 0 {
			capCPU += int64(r.Intn(1000))
			capMem += r.Int63n(1 << 30)
		}
	case "small":
		capCPU = int64(r.Intn(40))
		capMem = int64(r.Intn(40))
	case "huge":
		capCPU = vtQty(r, int64(1)<<50)
		capMem = vtQty(r, int64(1)<<58)
	default:
		capCPU = vtQty(r, int64(1)<<30)
		capMem = vtQty(r, int64(1)<<42)
	}
	amtCPU := func(scale int64) int64 { // an amount relative to the node size
		if scale <= 0 {
			return int64(r.Intn(3))
		}
		switch r.Intn(6) {
		case 0:
			return 0
		case 1:
			return scale
		case 2:
			return vtQty(r, scale)
		default:
			return r.Int63n(scale + 1)
		}
	}
	pct := func() int64 {
		switch r.Intn(8) {
		case 0:
			return 0
		case 1:
			return 100
		case 2:
			return int64(101 + r.Intn(120))
		default:
			return int64(r.Intn(101))
		}
	}
	thr := func() int64 {
		if r.Intn(2) == 0 {
			return -1
		}
		return pct()
	}
	degrade := []int64{1, 5, 15, 15, 60, 1000}[r.Intn(6)]
	var age int64
	switch r.Intn(10) {
	case 0:
		age = -1
	case 1:
		age = degrade*60 + 1
	case 2:
		age = degrade * 60
	case 3:
		age = degrade*60 + int64(r.Intn(100000))
	default:
		age = r.Int63n(degrade*60 + 1)
	}
	in := []int64{-1, 0,
		int64(r.Intn(5)), int64(r.Intn(5)), pct(), pct(), thr(), thr(), degrade, age}
	var raise []int // positions (in the remainder after k, delta) of consumption inputs
	pos := func() int { return len(in) - 2 }
	// node
	in = append(in, capCPU, capMem)
	allocCPU, allocMem := capCPU, capMem
	if r.Intn(3) != 0 {
		allocCPU -= amtCPU(capCPU / 8)
		allocMem -= amtCPU(capMem / 8)
	}
	if r.Intn(10) == 0 {
		allocCPU = capCPU + int64(r.Intn(5)) // allocatable above capacity: reservation clamps to 0
	}
	in = append(in, allocCPU, allocMem)
	annoFlag := int64(r.Intn(2))
	raise = append(raise, pos()+1, pos()+2)
	var rcpus int64
	if annoFlag != 0 && r.Intn(4) == 0 {
		rcpus = int64(1 + r.Intn(8))
	}
	in = append(in, annoFlag, amtCPU(capCPU/4), amtCPU(capMem/4), rcpus)
	raise = append(raise, pos(), pos()+1)
	in = append(in, amtCPU(capCPU/4), amtCPU(capMem/4))
	// zones
	in = append(in, int64(nz))
	for z := 0; z < nz; z++ {
		zc, zm := capCPU/int64(nz), capMem/int64(nz)
		switch r.Intn(5) {
		case 0:
			zc, zm = amtCPU(capCPU), amtCPU(capMem)
		case 1:
			zc += int64(r.Intn(3))
			zm += int64(r.Intn(3))
		}
		in = append(in, zc, zm)
	}
	// host applications
	na := []int{0, 0, 1, 2}[r.Intn(4)]
	in = append(in, int64(na))
	for a := 0; a < na; a++ {
		in = append(in, int64(r.Intn(6)))
		raise = append(raise, pos(), pos()+1)
		in = append(in, amtCPU(capCPU/8), amtCPU(capMem/8))
	}
	// pods
	np := r.Intn(7)
	if style == "small" {
		np = r.Intn(4)
	}
	share := int64(np + 1)
	if style == "tight" {
		share = int64(np)/2 + 1 // requests add up to about the capacity or beyond
	}
	in = append(in, int64(np))
	for p := 0; p < np; p++ {
		phase := []int64{1, 1, 1, 1, 0, 0, 2, 3, 4, 5, 5, 6}[r.Intn(12)]
		plabel := []int64{0, 0, 0, 1, 1, 2, 3, 4, 5}[r.Intn(9)]
		pval := int64(-1)
		if r.Intn(3) == 0 {
			pval = []int64{0, 2999, 3000, 3999, 4000, 5000, 5999, 6000, 7000, 7999, 8000, 9000, 9500, 9999, 10000}[r.Intn(15)]
		}
		qlabel := []int64{0, 0, 1, 1, 2, 3, 3, 4, 5, 6}[r.Intn(10)]
		kube := int64(1 + r.Intn(3))
		reqCPU, reqMem := amtCPU(capCPU/share), amtCPU(capMem/share)
		has := int64(r.Intn(3))
		if has > 1 {
			has = 1
		}
		mprio := []int64{0, 1, 1, 2, 3, 4, 5}[r.Intn(7)]
		useCPU, useMem := amtCPU(capCPU/share), amtCPU(capMem/share)
		if qlabel == 1 && r.Intn(4) != 0 && useCPU > reqCPU {
			useCPU = reqCPU // an LSE pod normally stays inside its exclusive CPUs
		}
		numa := int64(0)
		if r.Intn(3) == 0 {
			numa = int64(r.Intn(64))
		}
		in = append(in, phase, plabel, pval, qlabel, kube)
		raise = append(raise, pos(), pos()+1)
		in = append(in, reqCPU, reqMem, has, mprio)
		raise = append(raise, pos(), pos()+1)
		in = append(in, useCPU, useMem, numa)
	}
	// metrics of pods that are not in the pod list
	nd := []int{0, 0, 1, 2}[r.Intn(4)]
	in = append(in, int64(nd))
	for d := 0; d < nd; d++ {
		in = append(in, []int64{0, 1, 1, 2, 3, 4, 5}[r.Intn(7)])
		raise = append(raise, pos(), pos()+1)
		in = append(in, amtCPU(capCPU/8), amtCPU(capMem/8))
	}
	// node-level strategy sources: colocation-strategy annotation and reclaim-ratio labels
	if r.Intn(2) == 0 {
		in = append(in, 0, -1, -1, -1, -1, 0, 0, 0, 0)
	} else {
		opt := func() int64 {
			if r.Intn(2) == 0 {
				return -1
			}
			return pct()
		}
		k1, h1 := vtC09LabelGen(r, true)
		k2, h2 := vtC09LabelGen(r, true)
		in = append(in, []int64{0, 1, 1, 2, 2, 3}[r.Intn(6)], opt(), opt(), opt(), opt(), k1, h1, k2, h2)
	}
	// third-party allocations annotation
	tpKind := []int64{0, 0, 0, 1, 1, 2, 3, 4}[r.Intn(8)]
	in = append(in, tpKind)
	if tpKind == 1 || tpKind == 2 {
		raise = append(raise, pos(), pos()+1)
	}
	in = append(in, amtCPU(capCPU/3), amtCPU(capMem/3))
	// cpu-normalization ratio of the NodeResource ("h/100"; only a ratio above 1.00 amplifies batch-cpu)
	switch r.Intn(6) {
	case 0:
		in = append(in, 1, []int64{100, 101, 150, 200, 133, 500, 99, 0}[r.Intn(8)])
	case 1:
		in = append(in, 1, int64(100+r.Intn(201)))
	case 2:
		in = append(in, 2, 150)
	default:
		in = append(in, 0, 0)
	}
	// metamorphic perturbation: raise one consumption input (or lower the node allocatable)
	if r.Intn(8) != 0 {
		scale := capMem/4 + 2
		if r.Intn(2) == 0 {
			scale = capCPU/4 + 2
		}
		delta := 1 + r.Int63n(scale)
		if r.Intn(5) == 0 {
			delta = 1
		}
		if r.Intn(8) == 0 {
			k := 2 + r.Intn(2) // cpu / memory reclaim threshold: lowering it raises the safety margin
			d := int64(1 + r.Intn(30))
			if d > in[2+k] {
				d = in[2+k]
			}
			in[0], in[1] = int64(k), -d
		} else if r.Intn(6) == 0 {
			k := 10 + r.Intn(2) // allocCPU / allocMem
			in[0], in[1] = int64(k), -delta
			if in[2+k]+in[1] < 0 {
				in[1] = -in[2+k]
			}
		} else {
			in[0], in[1] = int64(raise[r.Intn(len(raise))]), delta
		}
	}
	return fmt.Sprintf("%s/z%d", style, nz), in
}

func TestVerifC09Batch(t *testing.T) { vtMain(t, "C09", vtC09BGen, vtC09BExec) }
