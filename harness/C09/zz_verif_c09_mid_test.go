//go:build verif

package midresource

import (
	"encoding/json"
	"fmt"
	"math/rand"
	"testing"
	"time"

	corev1 "k8s.io/api/core/v1"
	"k8s.io/apimachinery/pkg/api/resource"
	metav1 "k8s.io/apimachinery/pkg/apis/meta/v1"
	vtclock "k8s.io/utils/clock/testing"
	"k8s.io/utils/ptr"

	"github.com/koordinator-sh/koordinator/apis/configuration"
	"github.com/koordinator-sh/koordinator/apis/extension"
	slov1alpha1 "github.com/koordinator-sh/koordinator/apis/slo/v1alpha1"
	"github.com/koordinator-sh/koordinator/pkg/slo-controller/noderesource/framework"
	"github.com/koordinator-sh/koordinator/pkg/util/sloconfig"
)

// Wire format: see coq/C09/mid/Extract.v.

var vtC09MNow = time.Unix(1700000000, 0)

type vtC09MCur struct {
	in []int64
	i  int
}

// vtC09PodShape realises a total pod request (what k8s PodRequests reports) in one of five container
// layouts: one container; two containers; an init container that dominates smaller regular containers;
// a container plus pod overhead; a restartable (sidecar) init container next to a regular container.
func vtC09PodShape(pod *corev1.Pod, i int, reqCPU, reqMem int64, rl func(cpu, mem int64, omitZero bool) corev1.ResourceList) {
	ctr := func(name string, cpu, mem int64, omitZero bool) corev1.Container {
		return corev1.Container{Name: name, Resources: corev1.ResourceRequirements{Requests: rl(cpu, mem, omitZero)}}
	}
	switch i % 5 {
	case 1:
		c1c, c1m := reqCPU/3, reqMem/3
		pod.Spec.Containers = []corev1.Container{ctr("c1", c1c, c1m, false), ctr("c2", reqCPU-c1c, reqMem-c1m, true)}
	case 2:
		pod.Spec.InitContainers = []corev1.Container{ctr("i1", reqCPU/2, reqMem, true), ctr("i2", reqCPU, reqMem/2, false)}
		pod.Spec.Containers = []corev1.Container{ctr("c1", reqCPU/3, reqMem/3, true), ctr("c2", reqCPU/3, reqMem/3, false)}
	case 3:
		oc, om := reqCPU/4, reqMem/4
		pod.Spec.Containers = []corev1.Container{ctr("c1", reqCPU-oc, reqMem-om, true)}
		pod.Spec.Overhead = rl(oc, om, false)
	case 4:
		sc, sm := reqCPU/3, reqMem/3
		always := corev1.ContainerRestartPolicyAlways
		side := ctr("s1", sc, sm, false)
		side.RestartPolicy = &always
		pod.Spec.InitContainers = []corev1.Container{side}
		pod.Spec.Containers = []corev1.Container{ctr("c1", reqCPU-sc, reqMem-sm, true)}
	default:
		pod.Spec.Containers = []corev1.Container{ctr("c1", reqCPU, reqMem, true)}
	}
}

// vtC09LabelStr spells the ratio label of the given kind (coq/C09/Model.v label_scale): the decimal
// h/scale in one of the forms strconv.ParseFloat accepts; ok=false: no label.
func vtC09LabelStr(kind, h int64) (string, bool) {
	switch kind {
	case 0:
		return "", false
	case 1:
		return fmt.Sprintf("%d.%02d", h/100, h%100), true
	case 2:
		return "abc", true
	case 4:
		return fmt.Sprintf("%d.%03d", h/1000, h%1000), true
	case 5: // exponent form: (h/100).(h%100)e-1 = h/1000
		return fmt.Sprintf("%d.%02de-1", h/100, h%100), true
	case 6:
		if h < 10 && h%2 == 0 {
			return fmt.Sprintf(".%d", h), true
		}
		return fmt.Sprintf("+%d.%d", h/10, h%10), true
	case 7:
		return fmt.Sprintf("%d.%04d", h/10000, h%10000), true
	}
	return "-0.30", true
}

// vtC09LabelGen draws a label kind and its numerator: boundary-biased (0, 100 %, just below a whole
// percent, third-decimal 5, float-unfriendly values).
func vtC09LabelGen(r *rand.Rand, above100 bool) (int64, int64) {
	kind := []int64{0, 1, 1, 1, 2, 3, 4, 4, 5, 6, 7}[r.Intn(11)]
	scale := int64(100)
	switch kind {
	case 4, 5:
		scale = 1000
	case 6:
		scale = 10
	case 7:
		scale = 10000
	}
	var h int64
	switch r.Intn(8) {
	case 0:
		h = 0
	case 1:
		h = scale
	case 2:
		h = scale * 29 / 100 // 0.29*100 = 28.999999999999996
	case 3:
		// a whole percent plus a tail of .5 / .59 / .99 percent (third and fourth decimals)
		h = scale*int64(r.Intn(100))/100 + []int64{scale / 200, scale * 59 / 10000, scale * 99 / 10000, scale/100 - 1}[r.Intn(4)]
		if h < 0 {
			h = 0
		}
	case 4:
		h = scale - 1 // 0.9, 0.99, 0.999, 0.9999
	case 5:
		if above100 {
			h = scale + r.Int63n(scale*6/10+1)
		} else {
			h = r.Int63n(scale + 1)
		}
	default:
		h = r.Int63n(scale + 1)
	}
	if kind == 7 && h > 16383 {
		h = 16383
	}
	return kind, h
}

func (c *vtC09MCur) next() int64 {
	if c.i >= len(c.in) {
		panic("verif harness: short input")
	}
	v := c.in[c.i]
	c.i++
	return v
}

func vtC09MPrio(code int64) extension.PriorityClass {
	switch code {
	case 1:
		return extension.PriorityProd
	case 2:
		return extension.PriorityMid
	case 3:
		return extension.PriorityBatch
	case 4:
		return extension.PriorityFree
	case 5:
		return extension.PriorityClass("koord-unknown")
	}
	return extension.PriorityNone
}

func vtC09MRL(cpu, mem int64, omitZero bool) corev1.ResourceList {
	rl := corev1.ResourceList{}
	if cpu != 0 || !omitZero {
		rl[corev1.ResourceCPU] = *resource.NewMilliQuantity(cpu, resource.DecimalSI)
	}
	if mem != 0 || !omitZero {
		rl[corev1.ResourceMemory] = *resource.NewQuantity(mem, resource.BinarySI)
	}
	return rl
}

func vtC09MPct(v int64) *int64 {
	if v < 0 {
		return nil
	}
	return ptr.To[int64](v)
}

func vtC09MExec(x []int64) []int64 {
	c := &vtC09MCur{in: x}
	strategy := &configuration.ColocationStrategy{
		Enable:                     ptr.To[bool](true),
		ResourceDiffThreshold:      ptr.To[float64](0.1),
		UpdateTimeThresholdSeconds: ptr.To[int64](300),
	}
	switch c.next() {
	case 1:
		strategy.MidReclaimMode = ptr.To(configuration.MidReclaimModeStatic)
	case 2:
		strategy.MidReclaimMode = ptr.To(configuration.MidReclaimMode("dynamic"))
	}
	strategy.MidCPUThresholdPercent = vtC09MPct(c.next())
	strategy.MidMemoryThresholdPercent = vtC09MPct(c.next())
	strategy.MidUnallocatedPercent = vtC09MPct(c.next())
	strategy.MidStaticCPUReservedPercent = vtC09MPct(c.next())
	strategy.MidStaticMemoryReservedPercent = vtC09MPct(c.next())
	strategy.DegradeTimeMinutes = ptr.To[int64](c.next())
	age := c.next()
	capCPU, capMem, allocCPU, allocMem := c.next(), c.next(), c.next(), c.next()
	annoFlag, annoCPU, annoMem := c.next(), c.next(), c.next()
	sysCPU, sysMem := c.next(), c.next()
	usageFlag, usedCPU, usedMem := c.next(), c.next(), c.next()
	reclFlag, reclCPU, reclMem := c.next(), c.next(), c.next()

	old := *resource.NewQuantity(777, resource.DecimalSI)
	node := &corev1.Node{
		ObjectMeta: metav1.ObjectMeta{Name: "n0", Annotations: map[string]string{}, Labels: map[string]string{}},
		Status: corev1.NodeStatus{
			Capacity:    vtC09MRL(capCPU, capMem, false),
			Allocatable: vtC09MRL(allocCPU, allocMem, false),
		},
	}
	for _, rn := range ResourceNames {
		node.Status.Capacity[rn] = old.DeepCopy()
		node.Status.Allocatable[rn] = old.DeepCopy()
	}
	if annoFlag != 0 {
		data, err := json.Marshal(extension.NodeReservation{Resources: vtC09MRL(annoCPU, annoMem, true)})
		if err != nil {
			panic(err)
		}
		node.Annotations[extension.AnnotationNodeReservation] = string(data)
	}
	nm := &slov1alpha1.NodeMetric{
		ObjectMeta: metav1.ObjectMeta{Name: "n0"},
		Status: slov1alpha1.NodeMetricStatus{
			NodeMetric: &slov1alpha1.NodeMetricInfo{
				SystemUsage: slov1alpha1.ResourceMap{ResourceList: vtC09MRL(sysCPU, sysMem, true)},
			},
		},
	}
	switch usageFlag {
	case 1:
		nm.Status.NodeMetric.NodeUsage = slov1alpha1.ResourceMap{ResourceList: vtC09MRL(usedCPU, usedMem, false)}
	case 2: // memory usage missing: invalid
		nm.Status.NodeMetric.NodeUsage = slov1alpha1.ResourceMap{ResourceList: corev1.ResourceList{
			corev1.ResourceCPU: *resource.NewMilliQuantity(usedCPU, resource.DecimalSI)}}
	}
	if reclFlag != 0 {
		nm.Status.ProdReclaimableMetric = &slov1alpha1.ReclaimableMetric{
			Resource: slov1alpha1.ResourceMap{ResourceList: vtC09MRL(reclCPU, reclMem, true)}}
	}
	if age >= 0 {
		nm.Status.UpdateTime = &metav1.Time{Time: vtC09MNow.Add(-time.Duration(age) * time.Second)}
	}
	na := int(c.next())
	for i := 0; i < na; i++ {
		pr, cpu, mem := c.next(), c.next(), c.next()
		nm.Status.HostApplicationMetric = append(nm.Status.HostApplicationMetric, &slov1alpha1.HostApplicationMetricInfo{
			Name:     fmt.Sprintf("app%02d", i),
			Usage:    slov1alpha1.ResourceMap{ResourceList: vtC09MRL(cpu, mem, i%2 == 0)},
			Priority: vtC09MPrio(pr),
		})
	}
	np := int(c.next())
	podList := &corev1.PodList{}
	for i := 0; i < np; i++ {
		phase, plabel, pval, qlabel, kube := c.next(), c.next(), c.next(), c.next(), c.next()
		reqCPU, reqMem := c.next(), c.next()
		_, _, _, _, _ = c.next(), c.next(), c.next(), c.next(), c.next() // metrics / numa: unused by the mid tier
		pod := corev1.Pod{ObjectMeta: metav1.ObjectMeta{Name: fmt.Sprintf("p%02d", i), Namespace: "ns"}}
		switch phase {
		case 0:
			pod.Status.Phase = corev1.PodPending
		case 1:
			pod.Status.Phase = corev1.PodRunning
		case 2:
			pod.Status.Phase = corev1.PodSucceeded
		case 3:
			pod.Status.Phase = corev1.PodFailed
		case 5: // terminating, still running
			pod.Status.Phase = corev1.PodRunning
			pod.DeletionTimestamp = &metav1.Time{Time: vtC09MNow}
		case 6:
			pod.Status.Phase = corev1.PodPending
			pod.DeletionTimestamp = &metav1.Time{Time: vtC09MNow}
		default:
			pod.Status.Phase = corev1.PodUnknown
		}
		if plabel != 0 || (qlabel >= 1 && qlabel <= 6) {
			pod.Labels = map[string]string{}
		}
		if plabel != 0 {
			pod.Labels[extension.LabelPodPriorityClass] = string(vtC09MPrio(plabel))
		}
		if pval >= 0 {
			pod.Spec.Priority = ptr.To[int32](int32(pval))
		}
		switch qlabel {
		case 1:
			pod.Labels[extension.LabelPodQoS] = string(extension.QoSLSE)
		case 2:
			pod.Labels[extension.LabelPodQoS] = string(extension.QoSLSR)
		case 3:
			pod.Labels[extension.LabelPodQoS] = string(extension.QoSLS)
		case 4:
			pod.Labels[extension.LabelPodQoS] = string(extension.QoSBE)
		case 5:
			pod.Labels[extension.LabelPodQoS] = string(extension.QoSSystem)
		case 6:
			pod.Labels[extension.LabelPodQoS] = "NOT-A-QOS"
		}
		switch kube {
		case 1:
			pod.Status.QOSClass = corev1.PodQOSGuaranteed
		case 2:
			pod.Status.QOSClass = corev1.PodQOSBurstable
		default:
			pod.Status.QOSClass = corev1.PodQOSBestEffort
		}
		vtC09PodShape(&pod, i, reqCPU, reqMem, vtC09MRL)
		podList.Items = append(podList.Items, pod)
	}

	if len(c.in)-c.i >= 8 {
		ak, a1, a2, a3 := c.next(), c.next(), c.next(), c.next()
		k1, h1, k2, h2 := c.next(), c.next(), c.next(), c.next()
		switch ak {
		case 0:
		case 1:
			data, err := json.Marshal(&configuration.ColocationStrategy{
				MidStaticCPUReservedPercent:    vtC09MPct(a1),
				MidStaticMemoryReservedPercent: vtC09MPct(a2),
				MidUnallocatedPercent:          vtC09MPct(a3),
			})
			if err != nil {
				panic(err)
			}
			node.Annotations[extension.AnnotationNodeColocationStrategy] = string(data)
		case 2:
			node.Annotations[extension.AnnotationNodeColocationStrategy] = `{"midUnallocatedPercent": 3`
		default:
			node.Annotations[extension.AnnotationNodeColocationStrategy] = `{"midUnallocatedPercent":"all"}`
		}
		lbl := func(key string, kind, h int64) {
			if v, ok := vtC09LabelStr(kind, h); ok {
				node.Labels[key] = v
			}
		}
		lbl(extension.LabelMidStaticCPUReservedRatio, k1, h1)
		lbl(extension.LabelMidStaticMemoryReservedRatio, k2, h2)
	}
	strategy = sloconfig.GetNodeColocationStrategy(&configuration.ColocationCfg{ColocationStrategy: *strategy}, node)

	oldClk := clk
	clk = vtclock.NewFakeClock(vtC09MNow)
	defer func() { clk = oldClk }()

	p := &Plugin{}
	items, err := p.Calculate(strategy, node, podList, &framework.ResourceMetrics{NodeMetric: nm})
	if err != nil || len(items) != 2 || items[0].Name != extension.MidCPU || items[1].Name != extension.MidMemory {
		return []int64{-1}
	}
	nr := framework.NewNodeResource(items...)
	if err := p.Prepare(strategy, node, nr); err != nil {
		return []int64{-2}
	}
	pub := func(rn corev1.ResourceName) int64 {
		q, ok := node.Status.Allocatable[rn]
		if !ok {
			return -1
		}
		return q.Value()
	}
	if items[0].Reset || items[1].Reset {
		return []int64{vtB(items[0].Reset && items[1].Reset && items[0].Quantity == nil && items[1].Quantity == nil),
			pub(extension.MidCPU), pub(extension.MidMemory)}
	}
	obs := []int64{0, pub(extension.MidCPU), pub(extension.MidMemory)}
	for _, it := range items {
		if it.Quantity == nil {
			obs = append(obs, -2)
		} else {
			obs = append(obs, it.Quantity.Value())
		}
	}
	return obs
}

func vtC09MGen(r *rand.Rand, i int) (string, []int64) {
	style := []string{"typical", "typical", "typical", "small", "small", "huge", "odd"}[r.Intn(7)]
	var capCPU, capMem int64
	switch style {
	case "typical":
		capCPU = int64(1+r.Intn(128)) * 1000
		capMem = int64(1+r.Intn(1024)) << 30
		if r.Intn(4) == 0 {
			capCPU += int64(r.Intn(1000))
			capMem += r.Int63n(1 << 30)
		}
	case "small":
		capCPU, capMem = int64(r.Intn(40)), int64(r.Intn(40))
	case "huge":
		capCPU, capMem = vtQty(r, int64(1)<<50), vtQty(r, int64(1)<<58)
	default:
		capCPU, capMem = vtQty(r, int64(1)<<30), vtQty(r, int64(1)<<42)
	}
	amt := func(scale int64) int64 {
		if scale <= 0 {
			return int64(r.Intn(3))
		}
		switch r.Intn(6) {
		case 0:
			return 0
		case 1:
			return scale
		case 2:
			return vtQty(r, scale)
		default:
			return r.Int63n(scale + 1)
		}
	}
	pct := func() int64 {
		switch r.Intn(6) {
		case 0:
			return -1
		case 1:
			return 0
		case 2:
			return 100
		default:
			return int64(r.Intn(101))
		}
	}
	degrade := []int64{1, 5, 15, 15, 60}[r.Intn(5)]
	var age int64
	switch r.Intn(10) {
	case 0:
		age = -1
	case 1:
		age = degrade*60 + 1
	case 2:
		age = degrade * 60
	default:
		age = r.Int63n(degrade*60 + 1)
	}
	mode := []int64{0, 0, 1, 2}[r.Intn(4)]
	in := []int64{mode, pct(), pct(), pct(), pct(), pct(), degrade, age, capCPU, capMem}
	allocCPU, allocMem := capCPU, capMem
	if r.Intn(3) != 0 {
		allocCPU -= amt(capCPU / 8)
		allocMem -= amt(capMem / 8)
	}
	in = append(in, allocCPU, allocMem, int64(r.Intn(2)), amt(capCPU/4), amt(capMem/4), amt(capCPU/4), amt(capMem/4))
	usage := []int64{1, 1, 1, 1, 0, 2}[r.Intn(6)]
	usedCPU, usedMem := amt(capCPU), amt(capMem)
	if r.Intn(8) == 0 {
		usedCPU += capCPU // usage above capacity: unused is negative
	}
	in = append(in, usage, usedCPU, usedMem)
	in = append(in, []int64{1, 1, 1, 0}[r.Intn(4)], amt(capCPU/2), amt(capMem/2))
	na := []int{0, 0, 1, 2}[r.Intn(4)]
	in = append(in, int64(na))
	for a := 0; a < na; a++ {
		in = append(in, int64(r.Intn(6)), amt(capCPU/8), amt(capMem/8))
	}
	np := r.Intn(6)
	in = append(in, int64(np))
	for p := 0; p < np; p++ {
		phase := []int64{1, 1, 1, 1, 0, 0, 2, 3, 4, 5, 5, 6}[r.Intn(12)]
		plabel := []int64{0, 0, 0, 1, 1, 2, 3, 4, 5}[r.Intn(9)]
		pval := int64(-1)
		if r.Intn(3) == 0 {
			pval = []int64{0, 2999, 3000, 3999, 4000, 5000, 5999, 6000, 7000, 7999, 8000, 9000, 9500, 9999, 10000}[r.Intn(15)]
		}
		qlabel := []int64{0, 0, 1, 2, 3, 3, 4, 5, 6}[r.Intn(9)]
		kube := int64(1 + r.Intn(3))
		in = append(in, phase, plabel, pval, qlabel, kube, amt(capCPU/int64(np+1)), amt(capMem/int64(np+1)), 0, 0, 0, 0, 0)
	}
	if r.Intn(2) == 0 {
		in = append(in, 0, -1, -1, -1, 0, 0, 0, 0)
	} else {
		k1, h1 := vtC09LabelGen(r, false)
		k2, h2 := vtC09LabelGen(r, false)
		in = append(in, []int64{0, 1, 1, 2, 3}[r.Intn(5)], pct(), pct(), pct(), k1, h1, k2, h2)
	}
	return style, in
}

func TestVerifC09Mid(t *testing.T) { vtMain(t, "C09", vtC09MGen, vtC09MExec) }
