//go:build verif

package batchresource

import (
	"context"
	"fmt"
	"math/rand"
	"strings"
	"testing"

	corev1 "k8s.io/api/core/v1"
	metav1 "k8s.io/apimachinery/pkg/apis/meta/v1"
	"k8s.io/client-go/tools/record"
	"k8s.io/client-go/util/workqueue"
	ctrlclient "sigs.k8s.io/controller-runtime/pkg/client"
	"sigs.k8s.io/controller-runtime/pkg/client/fake"
	"sigs.k8s.io/controller-runtime/pkg/event"
	"sigs.k8s.io/controller-runtime/pkg/reconcile"

	"github.com/koordinator-sh/koordinator/apis/configuration"
	sloctrlconfig "github.com/koordinator-sh/koordinator/pkg/slo-controller/config"
	"github.com/koordinator-sh/koordinator/pkg/util/sloconfig"
)

// Stream "cfg" (wire format: coq/C09/cfg/Extract.v): a history of slo-controller-config ConfigMap
// events is delivered to the REAL ColocationHandlerForConfigMapEvent through its informer entry
// points (Create / Update / Delete); a reconcile does what NodeResourceReconciler does: IsCfgAvailable
// (lazy sync from the informer cache, here a fake client holding the current ConfigMap), GetCfgCopy,
// sloconfig.GetNodeColocationStrategy, Plugin.Calculate, Plugin.Prepare.  The ConfigMap text is
// rendered by hand so that unusual but legal JSON spellings reach the real decoder.

var vtC09PatchKeys = []string{
	"cpuCalculatePolicy", "memoryCalculatePolicy",
	"cpuReclaimThresholdPercent", "memoryReclaimThresholdPercent",
	"batchCPUThresholdPercent", "batchMemoryThresholdPercent",
	"degradeTimeMinutes", "updateTimeThresholdSeconds",
}

func vtC09PolicyStr(v int64) string {
	switch v {
	case 1:
		return `"usage"`
	case 2:
		return `"request"`
	case 3:
		return `"maxUsageRequest"`
	}
	return `"somethingElse"`
}

// the "key": value members of one strategy level
func vtC09CfgMembers(p []int64, style int64) []string {
	var ms []string
	for i, key := range vtC09PatchKeys {
		absent := (i < 2 && p[i] == 0) || (i >= 2 && p[i] == -1)
		k := key
		if style == 3 {
			k = strings.ToUpper(key) // encoding/json matches keys case-insensitively
		}
		if absent {
			if style == 2 {
				ms = append(ms, fmt.Sprintf(`"%s": null`, k))
			}
			continue
		}
		val := fmt.Sprintf("%d", p[i])
		decoy := "7"
		if i < 2 {
			val = vtC09PolicyStr(p[i])
			decoy = `"request"`
		}
		if style == 4 { // duplicate member: the last one wins
			ms = append(ms, fmt.Sprintf(`"%s": %s`, k, decoy))
		}
		ms = append(ms, fmt.Sprintf(`"%s": %s`, k, val))
	}
	if style == 5 {
		ms = append([]string{`"enable": true`, `"someUnknownKnob": {"a": [1, 2, {"b": null}]}`}, ms...)
		ms = append(ms, `"metricReportIntervalSeconds": 60`)
	}
	if style == 1 {
		for a, b := 0, len(ms)-1; a < b; a, b = a+1, b-1 {
			ms[a], ms[b] = ms[b], ms[a]
		}
	}
	return ms
}

func vtC09SelJSON(kind, a, b int64) string {
	pa, pb := fmt.Sprintf("v%02d", a), fmt.Sprintf("v%02d", b)
	tb := fmt.Sprintf("t%02d", b)
	switch kind {
	case 0:
		return ""
	case 1:
		return `"nodeSelector": {}`
	case 2:
		return fmt.Sprintf(`"nodeSelector": {"matchLabels": {"pool": "%s"}}`, pa)
	case 3:
		return fmt.Sprintf(`"nodeSelector": {"matchLabels": {"pool": "%s", "tier": "%s"}}`, pa, tb)
	case 4:
		return fmt.Sprintf(`"nodeSelector": {"matchExpressions": [{"key": "pool", "operator": "In", "values": ["%s", "%s"]}]}`, pa, pb)
	case 5:
		return fmt.Sprintf(`"nodeSelector": {"matchExpressions": [{"key": "pool", "operator": "NotIn", "values": ["%s"]}]}`, pa)
	case 6:
		return `"nodeSelector": {"matchExpressions": [{"key": "tier", "operator": "Exists"}]}`
	case 7:
		return `"nodeSelector": {"matchExpressions": [{"key": "pool", "operator": "DoesNotExist"}]}`
	case 8:
		return fmt.Sprintf(`"nodeSelector": {"matchLabels": {"pool": "%s"}, "matchExpressions": [{"key": "tier", "operator": "NotIn", "values": ["%s"]}]}`, pa, tb)
	}
	return fmt.Sprintf(`"nodeSelector": {"matchExpressions": [{"key": "pool", "operator": "Near", "values": ["%s"]}]}`, pa)
}

type vtC09CM struct {
	kind, style int64
	cluster     []int64
	entries     [][]int64 // selKind selA selB + 8 patch fields
}

func vtC09ReadCM(c *vtC09Cur) vtC09CM {
	cm := vtC09CM{kind: c.next(), style: c.next()}
	for i := 0; i < 8; i++ {
		cm.cluster = append(cm.cluster, c.next())
	}
	n := int(c.next())
	for e := 0; e < n; e++ {
		var ent []int64
		for i := 0; i < 11; i++ {
			ent = append(ent, c.next())
		}
		cm.entries = append(cm.entries, ent)
	}
	return cm
}

// the ConfigMap data; ok=false: the key is absent
func (cm vtC09CM) data() (string, bool) {
	switch cm.kind {
	case 0:
	case 1:
		return "", cm.style%2 == 0
	case 2:
		return `{"cpuReclaimThresholdPercent": 3`, true
	case 3:
		return `{"cpuReclaimThresholdPercent": "thirty", "degradeTimeMinutes": 5}`, true
	case 4:
		return `{"cpuReclaimThresholdPercent": 70, "nodeConfigs": [{"nodeSelector": {"matchLabels": {"pool": "v01"}}, "degradeTimeMinutes": "x"}]}`, true
	case 5:
		return `{"cpuReclaimThresholdPercent": 60.5}`, true
	default:
		return `[]`, true
	}
	ms := vtC09CfgMembers(cm.cluster, cm.style)
	if len(cm.entries) > 0 || cm.style == 2 {
		var es []string
		for i, e := range cm.entries {
			em := vtC09CfgMembers(e[3:], cm.style)
			if s := vtC09SelJSON(e[0], e[1], e[2]); s != "" {
				em = append([]string{s}, em...)
			}
			em = append([]string{fmt.Sprintf(`"name": "e%d"`, i)}, em...)
			es = append(es, "{"+strings.Join(em, ", ")+"}")
		}
		nodes := `"nodeConfigs": [` + strings.Join(es, ",\n  ") + `]`
		if cm.style == 1 {
			ms = append([]string{nodes}, ms...)
		} else {
			ms = append(ms, nodes)
		}
	}
	sep := ", "
	if cm.style == 1 {
		sep = ",\n\t "
	}
	return "{" + strings.Join(ms, sep) + "}", true
}

func (cm vtC09CM) object(name, ns string) *corev1.ConfigMap {
	o := &corev1.ConfigMap{ObjectMeta: metav1.ObjectMeta{Name: name, Namespace: ns}}
	if s, ok := cm.data(); ok {
		o.Data = map[string]string{configuration.ColocationConfigKey: s}
	} else {
		o.Data = map[string]string{"some-other-key": "{}"}
	}
	return o
}

func vtC09CfgExec(in []int64) []int64 {
	c := &vtC09Cur{in: in}
	nOps := int(c.next())
	type op struct {
		kind       int64
		cm         vtC09CM
		pool, tier int64
	}
	var ops []op
	for i := 0; i < nOps; i++ {
		o := op{kind: c.next()}
		switch o.kind {
		case 1, 2:
			o.cm = vtC09ReadCM(c)
		case 4:
			o.pool, o.tier = c.next(), c.next()
		}
		ops = append(ops, o)
	}
	body := in[c.i:]

	informer := fake.NewClientBuilder().Build()
	h := sloctrlconfig.NewColocationHandlerForConfigMapEvent(informer, *sloconfig.NewDefaultColocationCfg(), &record.FakeRecorder{})
	h.EnqueueRequest = func(q workqueue.TypedRateLimitingInterface[reconcile.Request]) {}
	ctx := context.TODO()
	var stored *corev1.ConfigMap
	obs := []int64{}
	for _, o := range ops {
		switch o.kind {
		case 1:
			obj := o.cm.object(sloconfig.SLOCtrlConfigMap, sloconfig.ConfigNameSpace)
			if stored == nil {
				if err := informer.Create(ctx, obj.DeepCopy()); err != nil {
					panic(err)
				}
				h.Create(ctx, event.TypedCreateEvent[ctrlclient.Object]{Object: obj}, nil)
			} else {
				cur := &corev1.ConfigMap{}
				if err := informer.Get(ctx, ctrlclient.ObjectKeyFromObject(obj), cur); err != nil {
					panic(err)
				}
				cur.Data = obj.Data
				if err := informer.Update(ctx, cur); err != nil {
					panic(err)
				}
				h.Update(ctx, event.TypedUpdateEvent[ctrlclient.Object]{ObjectOld: stored, ObjectNew: obj}, nil)
			}
			stored = obj
		case 2:
			name, ns := "some-other-config", sloconfig.ConfigNameSpace
			if o.cm.style%2 == 1 {
				name, ns = sloconfig.SLOCtrlConfigMap, "default"
			}
			obj := o.cm.object(name, ns)
			if o.cm.style%3 == 0 {
				h.Create(ctx, event.TypedCreateEvent[ctrlclient.Object]{Object: obj}, nil)
			} else {
				old := obj.DeepCopy()
				old.Data = map[string]string{configuration.ColocationConfigKey: "{}"}
				h.Update(ctx, event.TypedUpdateEvent[ctrlclient.Object]{ObjectOld: old, ObjectNew: obj}, nil)
			}
		case 3:
			if stored != nil {
				if err := informer.Delete(ctx, stored.DeepCopy()); err != nil {
					panic(err)
				}
				h.Delete(ctx, event.TypedDeleteEvent[ctrlclient.Object]{Object: stored}, nil)
				stored = nil
			}
		case 4:
			if !h.IsCfgAvailable() {
				obs = append(obs, 2)
				continue
			}
			labels := map[string]string{}
			if o.pool > 0 {
				labels["pool"] = fmt.Sprintf("v%02d", o.pool)
			}
			if o.tier > 0 {
				labels["tier"] = fmt.Sprintf("t%02d", o.tier)
			}
			obs = append(obs, vtC09BRunWith(body, h.GetCfgCopy(), labels)...)
		}
	}
	return obs
}

// ---------------------------------------------------------------- generator

func vtC09CfgGen(r *rand.Rand, i int) (string, []int64) {
	_, b := vtC09BGen(r, i)
	body := append([]int64(nil), b[2:len(b)-5]...) // without the third-party allocation and the normalization ratio (stream batch)

	degrades := []int64{15}
	pct := func() int64 {
		switch r.Intn(10) {
		case 0:
			return 0
		case 1:
			return 100
		case 2:
			return int64(101 + r.Intn(60))
		case 3:
			return 95
		default:
			return int64(r.Intn(101))
		}
	}
	patch := func(density int, allowBad bool) []int64 {
		p := []int64{0, 0, -1, -1, -1, -1, -1, -1}
		has := func() bool { return r.Intn(100) < density }
		if has() {
			p[0] = int64(1 + r.Intn(4))
		}
		if has() {
			p[1] = int64(1 + r.Intn(4))
		}
		for k := 2; k < 6; k++ {
			if has() {
				p[k] = pct()
				if allowBad && r.Intn(40) == 0 {
					p[k] = -int64(2 + r.Intn(5))
				}
			}
		}
		if has() {
			p[6] = []int64{1, 5, 10, 15, 60, 1000}[r.Intn(6)]
			if allowBad && r.Intn(30) == 0 {
				p[6] = []int64{0, -3}[r.Intn(2)]
			}
			if p[6] > 0 {
				degrades = append(degrades, p[6])
			}
		}
		if r.Intn(100) < density/3 {
			p[7] = 300
			if allowBad && r.Intn(6) == 0 {
				p[7] = 0
			}
		}
		return p
	}
	sel := func() []int64 {
		kind := []int64{2, 2, 2, 2, 2, 2, 3, 4, 5, 6, 7, 8, 0, 1, 9}[r.Intn(15)]
		return []int64{kind, int64(1 + r.Intn(3)), int64(1 + r.Intn(2))}
	}
	genCM := func() []int64 {
		kind := int64(0)
		switch r.Intn(14) {
		case 0:
			kind = 1
		case 1:
			kind = int64(2 + r.Intn(5))
		}
		cm := []int64{kind, int64(r.Intn(6))}
		cm = append(cm, patch(45, r.Intn(4) == 0)...)
		n := []int{0, 1, 2, 2, 3, 3, 4}[r.Intn(7)]
		cm = append(cm, int64(n))
		for e := 0; e < n; e++ {
			cm = append(cm, sel()...)
			cm = append(cm, patch(35, true)...)
		}
		return cm
	}
	mutate := func(cm []int64) []int64 {
		out := append([]int64(nil), cm...)
		switch r.Intn(5) {
		case 0: // the same data again
		case 1: // another spelling of the same data
			out[1] = int64(r.Intn(6))
		case 2: // one cluster field changes
			k := 2 + 2 + r.Intn(5)
			if k == 8 {
				out[k] = []int64{1, 5, 10, 60}[r.Intn(4)]
				degrades = append(degrades, out[k])
			} else {
				out[k] = pct()
			}
		case 3: // the cluster level becomes invalid: the old configuration stays
			out[2+2] = -5
		default:
			return genCM()
		}
		return out
	}
	query := func() []int64 { return []int64{4, int64(r.Intn(4)), int64(r.Intn(3))} }

	var ops [][]int64
	shape := "single"
	first := genCM()
	switch v := r.Intn(20); {
	case v < 11:
		ops = append(ops, append([]int64{1}, first...))
		for q := 1 + r.Intn(3); q > 0; q-- {
			ops = append(ops, query())
		}
	case v < 17:
		shape = "update"
		ops = append(ops, append([]int64{1}, first...), query())
		cur := first
		for u := 1 + r.Intn(2); u > 0; u-- {
			cur = mutate(cur)
			ops = append(ops, append([]int64{1}, cur...), query())
			if r.Intn(2) == 0 {
				ops = append(ops, query())
			}
		}
	default:
		shape = "free"
		cur := first
		for n := 1 + r.Intn(6); n > 0; n-- {
			switch r.Intn(8) {
			case 0, 1:
				ops = append(ops, append([]int64{1}, cur...))
				cur = mutate(cur)
			case 2:
				ops = append(ops, append([]int64{2}, genCM()...))
			case 3:
				ops = append(ops, []int64{3})
			default:
				ops = append(ops, query())
			}
		}
		ops = append(ops, query())
	}
	// the age of the node metric sits at a boundary of one of the degrade times in play
	d := degrades[r.Intn(len(degrades))]
	switch r.Intn(8) {
	case 0:
		body[7] = -1
	case 1:
		body[7] = d*60 + 1
	case 2:
		body[7] = d * 60
	case 3:
		body[7] = d*60 + int64(r.Intn(3000))
	default:
		body[7] = r.Int63n(d*60 + 1)
	}
	in := []int64{int64(len(ops))}
	for _, o := range ops {
		in = append(in, o...)
	}
	in = append(in, body...)
	return fmt.Sprintf("%s/ops%d", shape, len(ops)), in
}

func TestVerifC09Cfg(t *testing.T) { vtMain(t, "C09", vtC09CfgGen, vtC09CfgExec) }
