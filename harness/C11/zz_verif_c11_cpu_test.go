//go:build verif

package cpuevict

import (
	"encoding/json"
	"fmt"
	"io"
	"math/rand"
	"strconv"
	"strings"
	"testing"
	"time"

	promstorage "github.com/prometheus/prometheus/storage"
	corev1 "k8s.io/api/core/v1"
	"k8s.io/apimachinery/pkg/api/resource"
	metav1 "k8s.io/apimachinery/pkg/apis/meta/v1"
	"k8s.io/apimachinery/pkg/types"
	"k8s.io/klog/v2"

	apiext "github.com/koordinator-sh/koordinator/apis/extension"
	slov1alpha1 "github.com/koordinator-sh/koordinator/apis/slo/v1alpha1"
	"github.com/koordinator-sh/koordinator/pkg/features"
	"github.com/koordinator-sh/koordinator/pkg/koordlet/metriccache"
	qosmanagerUtil "github.com/koordinator-sh/koordinator/pkg/koordlet/qosmanager/plugins/util"
	"github.com/koordinator-sh/koordinator/pkg/koordlet/statesinformer"
)

// C11, stream "cpu": drives the real cpuEvict() (and its three victim-list builders) with a
// fake states informer / metric cache and a recording EvictionExecutor whose answers follow the
// generated oracle. Wire format: coq/C11/WireEvict.v.

var vtC11CPUFeatures = []string{"BECPUEvict", "CPUAllocatableEvict", "CPUEvict"}

type vtC11SI struct {
	statesinformer.StatesInformer
	metas []*statesinformer.PodMeta
	node  *corev1.Node
	slo   *slov1alpha1.NodeSLO
}

func (s *vtC11SI) GetAllPods() []*statesinformer.PodMeta { return s.metas }
func (s *vtC11SI) GetNode() *corev1.Node                 { return s.node }
func (s *vtC11SI) GetNodeSLO() *slov1alpha1.NodeSLO      { return s.slo }

type vtC11MC struct{ metriccache.MetricCache }

func (m *vtC11MC) Querier(start, end time.Time) (metriccache.Querier, error) {
	return &vtC11Q{}, nil
}

type vtC11Q struct{}

func (q *vtC11Q) Query(meta metriccache.MetricMeta, hints *metriccache.QueryHints, result metriccache.MetricResult) error {
	return nil
}
func (q *vtC11Q) QueryAndClose(meta metriccache.MetricMeta, hints *metriccache.QueryHints, result metriccache.MetricResult) error {
	return nil
}
func (q *vtC11Q) Close() {}

// the aggregate results carry the generated sample (or none) for the queried series
type vtC11Factory struct {
	nodeKind, podKind string
	nodeOK            bool
	node              float64
	pod               map[string]float64
	be                *vtC11BE
}

type vtC11Res struct {
	kind  string
	props map[string]string
	ok    bool
	v     float64
	// node BE cpu metric: window average (with its sample count) and last sample
	beAvg, beLast *vtC11BM
}

// one series of the node BE cpu metric as generated: value = val / 2^shift
type vtC11BM struct {
	ok       bool
	val, cnt int64
}

type vtC11BE struct {
	policy                      bool
	lowF, upF, uthrF, winF      bool
	low, up, uthr, win          int64
	interval, shift             int64
	avg, cur                    [3]vtC11BM // usage, request, real limit
}

func (f *vtC11Factory) New(meta metriccache.MetricMeta) metriccache.AggregateResult {
	r := &vtC11Res{kind: meta.GetKind(), props: meta.GetProperties()}
	switch r.kind {
	case f.nodeKind:
		r.ok, r.v = f.nodeOK, f.node
	case f.podKind:
		r.v, r.ok = f.pod[r.props[string(metriccache.MetricPropertyPodUID)]]
	case string(metriccache.NodeMetricBE):
		if f.be != nil && r.props[string(metriccache.MetricPropertyBEResource)] == string(metriccache.BEResourceCPU) {
			idx := -1
			switch metriccache.MetricPropertyValue(r.props[string(metriccache.MetricPropertyBEAllocation)]) {
			case metriccache.BEResourceAllocationUsage:
				idx = 0
			case metriccache.BEResourceAllocationRequest:
				idx = 1
			case metriccache.BEResourceAllocationRealLimit:
				idx = 2
			}
			if idx >= 0 {
				r.beAvg, r.beLast = &f.be.avg[idx], &f.be.cur[idx]
				r.v = float64(int64(1) << uint(f.be.shift))
			}
		}
	}
	return r
}
func (r *vtC11Res) GetKind() string                     { return r.kind }
func (r *vtC11Res) GetProperties() map[string]string    { return r.props }
func (r *vtC11Res) AddSeries(promstorage.Series) error  { return nil }
func (r *vtC11Res) TimeRangeDuration() time.Duration    { return time.Second }
func (r *vtC11Res) Count() int {
	if r.beAvg != nil {
		if r.beAvg.ok {
			return int(r.beAvg.cnt)
		}
		return 0
	}
	if r.ok {
		return 1
	}
	return 0
}
func (r *vtC11Res) Value(t metriccache.AggregationType) (float64, error) {
	if r.beAvg != nil {
		m := r.beAvg
		if t == metriccache.AggregationTypeLast {
			m = r.beLast
		} else if t != metriccache.AggregationTypeAVG {
			return 0, fmt.Errorf("unexpected aggregation %v", t)
		}
		if !m.ok {
			return 0, fmt.Errorf("no sample")
		}
		return float64(m.val) / r.v, nil
	}
	if !r.ok {
		return 0, fmt.Errorf("no sample")
	}
	return r.v, nil
}

type vtC11Rec struct {
	already  map[int64]bool
	flips    []int64
	fails    []int64
	nq, ne   int
	features []string
	events   []int64
	nev      int64
}

func vtC11PodID(pod *corev1.Pod) int64 {
	id, err := strconv.ParseInt(strings.TrimPrefix(pod.Name, "p"), 10, 64)
	if err != nil {
		return -1
	}
	return id
}

func (x *vtC11Rec) IsPodEvicted(pod *corev1.Pod) bool {
	id := vtC11PodID(pod)
	ans := x.already[id]
	if x.nq < len(x.flips) && x.flips[x.nq] != 0 {
		ans = !ans
	}
	x.nq++
	if ans {
		x.events = append(x.events, 1, 0, id, 1)
		x.nev++
	}
	return ans
}

func (x *vtC11Rec) Evict(pod *corev1.Pod, node *corev1.Node, reason string, message string) bool {
	ok := !(x.ne < len(x.fails) && x.fails[x.ne] != 0)
	x.ne++
	f := int64(99)
	for i, name := range x.features {
		if strings.HasPrefix(message, qosmanagerUtil.EvictReasonPrefix+name+",") {
			f = int64(i)
		}
	}
	x.events = append(x.events, 2, f, vtC11PodID(pod), vtB(ok))
	x.nev++
	return ok
}

type vtC11Cfg struct {
	enable                                 bool
	cap                                    int64
	usedOK                                 bool
	nodeUsed                               int64
	thrF, lowerF, evthrF                   bool
	thr, lower, evthr                      int64
	athrF, alowerF, aprioF                 bool
	athr, alower, aprio                    int64
	alloc                                  [3]int64
	feat                                   [3]bool
}

type vtC11Pod struct {
	id                                        int64
	be, active                                bool
	pol                                       int64
	prioNil                                   bool
	prio                                      int64
	enabled                                   bool
	evprio                                    int64
	hasLab                                    bool
	lab                                       int64
	hasMetric                                 bool
	used, req0, req1, req2                    int64
}

// a further container of a pod: kind 0 regular, 1 init, 2 sidecar (init container with restartPolicy Always)
type vtC11Ctr struct {
	pod, kind        int64
	req0, req1, req2 int64
}

type vtC11Input struct {
	cfg     vtC11Cfg
	pods    []vtC11Pod
	already map[int64]bool
	flips   []int64
	fails   []int64
	extra   []vtC11Ctr
	be      vtC11BE
}

func vtC11Decode(in []int64) vtC11Input {
	pos := 0
	next := func() int64 {
		if pos >= len(in) { // the trailer (further containers, BE config) is optional
			return 0
		}
		v := in[pos]
		pos++
		return v
	}
	nb := func() bool { return next() != 0 }
	var x vtC11Input
	c := &x.cfg
	c.enable, c.cap, c.usedOK, c.nodeUsed = nb(), next(), nb(), next()
	c.thrF, c.thr, c.lowerF, c.lower, c.evthrF, c.evthr = nb(), next(), nb(), next(), nb(), next()
	c.athrF, c.athr, c.alowerF, c.alower, c.aprioF, c.aprio = nb(), next(), nb(), next(), nb(), next()
	c.alloc = [3]int64{next(), next(), next()}
	c.feat = [3]bool{nb(), nb(), nb()}
	for n := int(next()); n > 0; n-- {
		var p vtC11Pod
		p.id, p.be, p.active, p.pol, p.prioNil, p.prio = next(), nb(), nb(), next(), nb(), next()
		p.enabled, p.evprio, p.hasLab, p.lab, p.hasMetric, p.used = nb(), next(), nb(), next(), nb(), next()
		p.req0, p.req1, p.req2 = next(), next(), next()
		x.pods = append(x.pods, p)
	}
	x.already = map[int64]bool{}
	for a := int(next()); a > 0; a-- {
		x.already[next()] = true
	}
	for a := int(next()); a > 0; a-- {
		x.flips = append(x.flips, next())
	}
	for a := int(next()); a > 0; a-- {
		x.fails = append(x.fails, next())
	}
	for a := int(next()); a > 0; a-- {
		x.extra = append(x.extra, vtC11Ctr{pod: next(), kind: next(), req0: next(), req1: next(), req2: next()})
	}
	b := &x.be
	b.policy, b.lowF, b.low, b.upF, b.up = nb(), nb(), next(), nb(), next()
	b.uthrF, b.uthr, b.winF, b.win, b.interval, b.shift = nb(), next(), nb(), next(), next(), next()
	for i := 0; i < 3; i++ {
		b.avg[i] = vtC11BM{ok: nb(), val: next(), cnt: next()}
	}
	for i := 0; i < 3; i++ {
		b.cur[i] = vtC11BM{ok: nb(), val: next(), cnt: next()}
	}
	return x
}

// vtC11BuildPod renders a pod description as labels / annotations / spec, the way users write them.
func vtC11BuildPod(p vtC11Pod, extra []vtC11Ctr, featNames []string, plain corev1.ResourceName, batch, mid corev1.ResourceName, plainQty func(int64) resource.Quantity) *corev1.Pod {
	name := fmt.Sprintf("p%03d", p.id)
	pod := &corev1.Pod{ObjectMeta: metav1.ObjectMeta{Namespace: "ns", Name: name, UID: types.UID(name),
		Labels: map[string]string{}, Annotations: map[string]string{}}}
	if p.be {
		pod.Labels[apiext.LabelPodQoS] = string(apiext.QoSBE)
	} else {
		pod.Labels[apiext.LabelPodQoS] = string(apiext.QoSLS)
	}
	if p.enabled {
		pod.Labels[apiext.LabelPodEvictEnabled] = "true"
	} else if p.id%2 == 0 {
		pod.Labels[apiext.LabelPodEvictEnabled] = "false"
	}
	if p.hasLab {
		pod.Labels[apiext.LabelPodPriority] = strconv.FormatInt(p.lab, 10)
	} else if p.id%3 == 0 {
		pod.Labels[apiext.LabelPodPriority] = "x1"
	}
	switch {
	case p.pol == -1:
	case p.pol < 0:
		pod.Annotations[apiext.AnnotationPodEvictPolicy] = "not-json"
	default:
		names := []string{}
		for f, n := range featNames {
			if p.pol&(1<<uint(f)) != 0 {
				names = append(names, n)
			}
		}
		if p.pol&8 != 0 {
			names = append(names, "SomethingElse")
		}
		b, _ := json.Marshal(names)
		pod.Annotations[apiext.AnnotationPodEvictPolicy] = string(b)
	}
	// the annotation is an int32 STRING, read in base 10: users also write it zero padded or with
	// an explicit sign; base prefixes and digit separators are not numbers (-> implicit 0)
	if p.evprio != 0 {
		v := strconv.FormatInt(p.evprio, 10)
		switch (p.id + p.evprio%7 + 7) % 4 {
		case 1:
			v = fmt.Sprintf("%03d", p.evprio)
		case 2:
			if p.evprio > 0 {
				v = "+" + v
			}
		}
		pod.Annotations[apiext.AnnotationPodEvictionPriority] = v
	} else if p.id%3 == 1 {
		pod.Annotations[apiext.AnnotationPodEvictionPriority] = []string{"abc", "0x10", "1_0", "0b11", "0o17"}[(p.id/3+p.prio%5+5)%5]
	} else if p.id%3 == 2 {
		pod.Annotations[apiext.AnnotationPodEvictionPriority] = []string{"0", "000", "-0"}[(p.id/3)%3]
	}
	if !p.prioNil {
		v := int32(p.prio)
		pod.Spec.Priority = &v
	}
	switch {
	case p.active && p.id%2 == 0:
		pod.Status.Phase = corev1.PodPending
	case p.active:
		pod.Status.Phase = corev1.PodRunning
	case p.id%2 == 0:
		pod.Status.Phase = corev1.PodSucceeded
	default:
		pod.Status.Phase = corev1.PodFailed
	}
	mk := func(name string, r0, r1, r2 int64) corev1.Container {
		reqs := corev1.ResourceList{}
		if r0 != 0 {
			reqs[plain] = plainQty(r0)
		}
		if r1 != 0 {
			reqs[batch] = *resource.NewQuantity(r1, resource.DecimalSI)
		}
		if r2 != 0 {
			reqs[mid] = *resource.NewQuantity(r2, resource.DecimalSI)
		}
		// limits = requests for the extended resources, as the webhook leaves them
		lims := corev1.ResourceList{}
		for k, v := range reqs {
			if k != plain {
				lims[k] = v.DeepCopy()
			}
		}
		return corev1.Container{Name: name, Resources: corev1.ResourceRequirements{Requests: reqs, Limits: lims}}
	}
	pod.Spec.Containers = []corev1.Container{mk("c", p.req0, p.req1, p.req2)}
	for i, k := range extra {
		if k.pod != p.id {
			continue
		}
		c := mk(fmt.Sprintf("x%d", i), k.req0, k.req1, k.req2)
		switch k.kind {
		case 0:
			pod.Spec.Containers = append(pod.Spec.Containers, c)
		case 2:
			always := corev1.ContainerRestartPolicyAlways
			c.RestartPolicy = &always
			pod.Spec.InitContainers = append(pod.Spec.InitContainers, c)
		default:
			pod.Spec.InitContainers = append(pod.Spec.InitContainers, c)
		}
	}
	return pod
}

func vtC11Ids(infos []*qosmanagerUtil.PodEvictInfo) []int64 {
	out := []int64{int64(len(infos))}
	for _, i := range infos {
		out = append(out, vtC11PodID(i.Pod))
	}
	return out
}

// canonical order inside runs of pods the BE comparator does not distinguish (same priority,
// same CpuUsage): sort.Slice leaves their order arbitrary
func vtC11CanonBE(infos []*qosmanagerUtil.PodEvictInfo) {
	same := func(a, b *qosmanagerUtil.PodEvictInfo) bool {
		pa, pb := a.Pod.Spec.Priority, b.Pod.Spec.Priority
		if (pa == nil) != (pb == nil) || (pa != nil && *pa != *pb) {
			return false
		}
		return a.CpuUsage == b.CpuUsage
	}
	for i := 0; i < len(infos); {
		j := i + 1
		for j < len(infos) && same(infos[i], infos[j]) {
			j++
		}
		run := infos[i:j]
		for x := 1; x < len(run); x++ {
			for y := x; y > 0 && vtC11PodID(run[y].Pod) < vtC11PodID(run[y-1].Pod); y-- {
				run[y], run[y-1] = run[y-1], run[y]
			}
		}
		i = j
	}
}

func vtC11CPUExec(in []int64) []int64 {
	x := vtC11Decode(in)
	c := x.cfg
	milli := func(v int64) resource.Quantity { return *resource.NewMilliQuantity(v, resource.DecimalSI) }
	plainQ := func(v int64) resource.Quantity { return *resource.NewQuantity(v, resource.DecimalSI) }
	var metas []*statesinformer.PodMeta
	podMetric := map[string]float64{}
	for _, p := range x.pods {
		pod := vtC11BuildPod(p, x.extra, vtC11CPUFeatures, corev1.ResourceCPU, apiext.BatchCPU, apiext.MidCPU, milli)
		metas = append(metas, &statesinformer.PodMeta{Pod: pod})
		if p.hasMetric {
			podMetric[string(pod.UID)] = float64(p.used) / 1000
		}
	}
	node := &corev1.Node{ObjectMeta: metav1.ObjectMeta{Name: "node"}}
	node.Status.Capacity = corev1.ResourceList{corev1.ResourceCPU: milli(c.cap)}
	node.Status.Allocatable = corev1.ResourceList{}
	if c.alloc[0] >= 0 {
		node.Status.Allocatable[corev1.ResourceCPU] = milli(c.alloc[0])
	}
	if c.alloc[1] >= 0 {
		node.Status.Allocatable[apiext.BatchCPU] = plainQ(c.alloc[1])
	}
	if c.alloc[2] >= 0 {
		node.Status.Allocatable[apiext.MidCPU] = plainQ(c.alloc[2])
	}
	th := &slov1alpha1.ResourceThresholdStrategy{Enable: &c.enable}
	if c.thrF {
		th.CPUEvictThresholdPercent = &c.thr
	}
	if c.lowerF {
		th.CPUEvictLowerPercent = &c.lower
	}
	if c.evthrF {
		v := int32(c.evthr)
		th.EvictEnabledPriorityThreshold = &v
	}
	if c.athrF {
		th.CPUAllocatableEvictThresholdPercent = &c.athr
	}
	if c.alowerF {
		th.CPUAllocatableEvictLowerPercent = &c.alower
	}
	if c.aprioF {
		v := int32(c.aprio)
		th.AllocatableEvictPriorityThreshold = &v
	}
	b := &x.be
	if b.policy {
		th.CPUEvictPolicy = slov1alpha1.EvictByAllocatablePolicy
	} else if len(x.pods)%2 == 1 {
		th.CPUEvictPolicy = slov1alpha1.EvictByRealLimitPolicy
	}
	if b.lowF {
		th.CPUEvictBESatisfactionLowerPercent = &b.low
	}
	if b.upF {
		th.CPUEvictBESatisfactionUpperPercent = &b.up
	}
	if b.uthrF {
		th.CPUEvictBEUsageThresholdPercent = &b.uthr
	}
	if b.winF {
		th.CPUEvictTimeWindowSeconds = &b.win
	}
	si := &vtC11SI{metas: metas, node: node, slo: &slov1alpha1.NodeSLO{Spec: slov1alpha1.NodeSLOSpec{ResourceUsedThresholdWithBE: th}}}
	metriccache.DefaultAggregateResultFactory = &vtC11Factory{
		nodeKind: string(metriccache.NodeMetricCPUUsage), podKind: string(metriccache.PodMetricCPUUsage),
		nodeOK: c.usedOK, node: float64(c.nodeUsed) / 1000, pod: podMetric, be: b}
	if err := features.DefaultMutableKoordletFeatureGate.SetFromMap(map[string]bool{
		vtC11CPUFeatures[0]: c.feat[0], vtC11CPUFeatures[1]: c.feat[1], vtC11CPUFeatures[2]: c.feat[2]}); err != nil {
		panic(err)
	}
	rec := &vtC11Rec{already: x.already, flips: x.flips, fails: x.fails, features: vtC11CPUFeatures}
	m := &cpuEvictor{statesInformer: si, metricCache: &vtC11MC{}, metricCollectInterval: time.Duration(b.interval) * time.Second, evictExecutor: rec}

	be := m.getBEPodEvictInfoAndSort(vtC11CPUFeatures[0], th, si.GetAllPods())
	vtC11CanonBE(be)
	obs := vtC11Ids(be)
	if c.aprioF {
		obs = append(obs, vtC11Ids(m.getPodEvictInfoAndSortByAllocatable(vtC11CPUFeatures[1], th, si.GetAllPods()))...)
	} else {
		obs = append(obs, 0)
	}
	if c.evthrF {
		obs = append(obs, vtC11Ids(m.getPodEvictInfoAndSortByUsed(vtC11CPUFeatures[2], th, si.GetAllPods()))...)
	} else {
		obs = append(obs, 0)
	}
	m.cpuEvict()
	obs = append(obs, rec.nev)
	obs = append(obs, rec.events...)
	return obs
}

// vtC11GenPods draws a pod set; usage and request figures are pairwise distinct so that the
// published order has no full-key ties (sort.Slice orders those arbitrarily).
func vtC11GenPods(rnd *rand.Rand, unit int64, allNil bool, boundary bool) []int64 {
	n := 1 + rnd.Intn(8)
	if rnd.Intn(12) == 0 {
		n = 0
	}
	palette := []int64{5000 + int64(rnd.Intn(1000)), 7000 + int64(rnd.Intn(1000)), 9000 + int64(rnd.Intn(1000)),
		3000 + int64(rnd.Intn(1000)), int64(1 + rnd.Intn(200)), 6500, 5999, 7999}
	pick := rnd.Perm(len(palette))[:3]
	out := []int64{int64(n)}
	for _, i := range rnd.Perm(n) {
		id := int64(i + 1)
		pol := int64(-1)
		switch x := rnd.Intn(20); {
		case x == 0:
			pol = -2
		case x < 6:
			pol = int64(rnd.Intn(16))
		}
		prio := palette[pick[rnd.Intn(3)]]
		switch rnd.Intn(30) {
		case 0:
			prio = 0
		case 1:
			prio = -int64(1 + rnd.Intn(50))
		}
		evprio := int64(0)
		if rnd.Intn(10) < 4 {
			evprio = []int64{-1, 5, 100, 7, 8, 9, 10, 12, 64}[rnd.Intn(9)]
		}
		lab := []int64{1000, 2000, 3000, -5}[rnd.Intn(4)]
		hasLab := rnd.Intn(10) < 3
		if boundary {
			// the three sort keys at and around the int32 limits, 0, +-1, mixed signs
			// (EvictionPriority and Priority are int32 in the code, LabelPriority int64)
			const maxI32, minI32 = int64(1)<<31 - 1, -(int64(1) << 31)
			if rnd.Intn(10) < 7 {
				evprio = []int64{minI32, minI32 + 1, -1000, -1, 0, 1, 1000, maxI32 - 1, maxI32}[rnd.Intn(9)]
			}
			if rnd.Intn(10) < 5 {
				prio = []int64{minI32, minI32 + 1, -1, 1, maxI32 - 1, maxI32, 5000}[rnd.Intn(7)]
			}
			if rnd.Intn(10) < 6 {
				hasLab = true
				lab = []int64{minI32 - 1, minI32, minI32 + 1, -1, 0, 1, maxI32 - 1, maxI32, maxI32 + 1, 1 << 40, -(1 << 40)}[rnd.Intn(11)]
			}
		}
		used := int64(1+rnd.Intn(50))*unit + 2*id // spacing 2: a sample may lose a milli in the float64 cores round trip
		out = append(out, id, vtB(rnd.Intn(2) == 0), vtB(rnd.Intn(100) < 88), pol, vtB(allNil), prio,
			vtB(rnd.Intn(100) < 82), evprio, vtB(hasLab), lab, vtB(rnd.Intn(100) < 88), used,
			int64(rnd.Intn(40))*unit+id*8, int64(rnd.Intn(40))*unit+id*8+1, int64(rnd.Intn(40))*unit+id*8+2)
	}
	return out
}

func vtC11GenOracle(rnd *rand.Rand) []int64 {
	var already []int64
	for p := 1; p <= 8; p++ {
		if rnd.Intn(10) == 0 {
			already = append(already, int64(p))
		}
	}
	out := append([]int64{int64(len(already))}, already...)
	nf := rnd.Intn(7)
	out = append(out, int64(nf))
	for a := 0; a < nf; a++ {
		out = append(out, vtB(rnd.Intn(25) == 0))
	}
	ng := rnd.Intn(9)
	out = append(out, int64(ng))
	for a := 0; a < ng; a++ {
		out = append(out, vtB(rnd.Intn(6) == 0))
	}
	return out
}

// vtC11Exact returns the smallest v' >= v whose cores value survives float64(v')/1000*1000
func vtC11Exact(v int64) int64 {
	for int64(float64(v)/1000*1000) != v {
		v++
	}
	return v
}

// vtC11GenExtras draws further containers (regular, init, sidecar) for some pods. Requests are
// multiples of unit (init containers: plus a per-pod residue), so that the pods' summed request
// figures stay pairwise distinct.
func vtC11GenExtras(rnd *rand.Rand, pods []int64, unit int64, percent int) []int64 {
	out := []int64{0}
	for p := 0; p < int(pods[0]); p++ {
		id := pods[1+15*p]
		if rnd.Intn(100) >= percent {
			continue
		}
		for k := 1 + rnd.Intn(3); k > 0; k-- {
			kind := []int64{0, 1, 2, 2, 2}[rnd.Intn(5)]
			amount := func() int64 {
				if rnd.Intn(3) == 0 {
					return 0
				}
				return int64(1+rnd.Intn(40)) * unit
			}
			r0 := amount()
			if kind == 1 && r0 != 0 {
				r0 += id*8 + 4
			}
			out = append(out, id, kind, r0, amount(), amount())
			out[0]++
		}
	}
	return out
}

// batch-cpu the pod record f holds while it runs (regular + sidecar containers, positive amounts)
func vtC11HeldBatch(f []int64, extras []int64) int64 {
	sum := int64(0)
	if f[13] > 0 {
		sum += f[13]
	}
	for e := 0; e < int(extras[0]); e++ {
		k := extras[1+5*e : 1+5*e+5]
		if k[0] == f[0] && (k[1] == 0 || k[1] == 2) && k[3] > 0 {
			sum += k[3]
		}
	}
	return sum
}

// vtC11Detie makes the BE pods pairwise distinct under getBEPodEvictInfoAndSort's comparator
// (priority, then float64 used/request): sort.Slice orders pods it cannot tell apart arbitrarily
// and the end-to-end victim order would not be a function of the input.
func vtC11Detie(rnd *rand.Rand, pods []int64, extras []int64, unit int64) {
	type key struct {
		prio  int64
		ratio float64
	}
	for iter := 0; iter < 100; iter++ {
		seen := map[key]bool{}
		changed := false
		for p := 0; p < int(pods[0]); p++ {
			f := pods[1+15*p : 1+15*p+15]
			if f[1] == 0 {
				continue
			}
			req, used, k := vtC11HeldBatch(f, extras), int64(0), key{}
			if f[10] != 0 {
				used = int64(float64(f[11]) / 1000 * 1000) // MilliCPUUsed = int64(cores*1000)
			}
			if f[4] == 0 {
				k.prio = f[5]
			}
			if req > 0 {
				k.ratio = float64(used) / float64(req)
			}
			if !seen[k] {
				seen[k] = true
				continue
			}
			changed = true
			f[10] = 1
			if f[13] <= 0 {
				f[13] = int64(1+rnd.Intn(40))*unit + f[0]*8 + 1
			}
			f[11] = f[11] + unit*int64(1+rnd.Intn(7))
		}
		if !changed {
			return
		}
	}
}

// vtC11GenBE draws the BECPUEvict configuration and the node BE cpu metric (29 integers, layout
// in coq/C11/WireEvict.v). The request metric is what the collector would report for the BE pods
// (or near it), the real limit a fraction of it around the satisfaction bounds, so that targets
// between one victim and all of them are common. Returns the section and the integer limit.
func vtC11GenBE(rnd *rand.Rand, pods []int64, extras []int64, style string) ([]int64, int64) {
	held := int64(0)
	for p := 0; p < int(pods[0]); p++ {
		if f := pods[1+15*p : 1+15*p+15]; f[1] != 0 {
			held += vtC11HeldBatch(f, extras)
		}
	}
	if held == 0 || rnd.Intn(12) == 0 {
		held = int64(1 + rnd.Intn(20000))
	}
	shift := []int64{0, 0, 0, 1, 3}[rnd.Intn(5)]
	scale := int64(1) << uint(shift)
	low := int64(1 + rnd.Intn(60))
	up := low + int64(rnd.Intn(int(100-low)))
	switch rnd.Intn(16) {
	case 0:
		low = []int64{0, 60, 61, -1}[rnd.Intn(4)]
	case 1:
		up = []int64{99, 100, low - 1, low, 0}[rnd.Intn(5)]
	}
	// "go": every gate of the satisfaction computation is passed, so that the loop is reached
	goMode := style == "be" && rnd.Intn(4) != 0
	if goMode {
		low = int64(20 + rnd.Intn(41))
		up = low + int64(rnd.Intn(int(100-low)))
		if rnd.Intn(3) != 0 {
			up = 60 + int64(rnd.Intn(40))
		}
	}
	req := held * scale
	if rnd.Intn(5) == 0 {
		req += int64(rnd.Intn(int(2*scale+1))) - scale
	}
	sat := int64(rnd.Intn(int(low + 10)))
	if low <= 0 {
		sat = int64(rnd.Intn(10))
	}
	if goMode {
		sat = int64(1 + rnd.Intn(int(low)))
	}
	limit := req * sat / 100
	if rnd.Intn(6) == 0 && low > 0 {
		limit = req * low / 100 // at the lower bound: decided by the rounding of limit/request vs low/100
	}
	if rnd.Intn(15) == 0 && !goMode {
		limit = []int64{0, 1, 999 * scale, 1000 * scale, -scale}[rnd.Intn(5)]
	}
	uthr := []int64{90, 90, 50, 100, 0, 75}[rnd.Intn(6)]
	uthrF := rnd.Intn(3) == 0
	eff := int64(90)
	if uthrF {
		eff = uthr
	}
	usage := limit * []int64{eff - 1, eff, eff + 1, 95, 100, 100, 100, 50}[rnd.Intn(8)] / 100
	if goMode {
		usage = limit * (eff + 1 + int64(rnd.Intn(10))) / 100
	}
	interval := []int64{1, 1, 1, 2, 5}[rnd.Intn(5)]
	win := []int64{1, 3, 9, 10, 30, 60}[rnd.Intn(6)]
	cnt := func() int64 {
		if goMode {
			return 20 + int64(rnd.Intn(20))
		}
		if rnd.Intn(10) == 0 {
			return int64(rnd.Intn(3))
		}
		return int64(1 + rnd.Intn(20))
	}
	ok := func() int64 { return vtB(goMode || rnd.Intn(25) != 0) }
	out := []int64{vtB(rnd.Intn(4) == 0), vtB(rnd.Intn(20) != 0), low, vtB(rnd.Intn(20) != 0), up,
		vtB(uthrF), uthr, vtB(rnd.Intn(2) == 0), win, interval, shift,
		ok(), usage, cnt(), ok(), req, cnt(), ok(), limit, cnt()}
	cu, cr, cl := usage, req, limit
	if rnd.Intn(5) < 2 && !(goMode && rnd.Intn(2) == 0) {
		jit := func(v int64) int64 {
			if rnd.Intn(2) == 0 {
				return v
			}
			return v + v*int64(rnd.Intn(41)-20)/100
		}
		cu, cr, cl = jit(cu), jit(cr), jit(cl)
	}
	out = append(out, ok(), cu, 1, ok(), cr, 1, ok(), cl, 1)
	return out, limit / scale
}

func vtC11CPUGen(rnd *rand.Rand, idx int) (string, []int64) {
	style := []string{"pressure", "pressure", "mixed", "calm", "degenerate", "boundary", "boundary", "be", "be", "be", "be"}[rnd.Intn(11)]
	unit := int64([]int{128, 256, 512}[rnd.Intn(3)])
	cap := int64(4+rnd.Intn(124)) * 1000
	pct := int64(50 + rnd.Intn(51))
	if style == "pressure" {
		pct = int64(80 + rnd.Intn(21))
	}
	if style == "calm" {
		pct = int64(20 + rnd.Intn(50))
	}
	if style == "pressure" && rnd.Intn(2) == 0 {
		cap = int64(2+rnd.Intn(14)) * 1000
	}
	nodeUsed := cap / 100 * pct
	if rnd.Intn(2) == 0 {
		nodeUsed = vtC11Exact(nodeUsed)
	} else {
		nodeUsed += int64(rnd.Intn(1000))
	}
	thr := int64(60 + rnd.Intn(36))
	lower := thr - int64(1+rnd.Intn(30))
	if rnd.Intn(20) == 0 {
		lower = thr + int64(rnd.Intn(3))
	}
	if style == "degenerate" && rnd.Intn(4) == 0 {
		thr = -1
	}
	evthr := []int64{5999, 7999, 9999, 3999, 6999}[rnd.Intn(5)]
	athr := int64(rnd.Intn(100))
	alower := []int64{0, 25, 50, 75}[rnd.Intn(4)]
	if rnd.Intn(2) == 0 {
		alower = int64(rnd.Intn(100)) // float64(lower)/100 is not a binary fraction
	}
	if rnd.Intn(3) != 0 && alower >= athr {
		alower = int64(rnd.Intn(int(athr + 1)))
	}
	aprio := []int64{5999, 7999, 7999, 3999, 8500}[rnd.Intn(5)]
	if style == "boundary" {
		evthr = []int64{int64(1)<<31 - 1, 9999, 7999, -1}[rnd.Intn(4)]
		aprio = []int64{7999, 7999, -1, -(int64(1) << 31)}[rnd.Intn(4)]
	}
	alloc := func() int64 {
		switch rnd.Intn(10) {
		case 0:
			return -1
		case 1:
			return 0
		case 2, 3, 4:
			return int64(1) << uint(8+rnd.Intn(8))
		default:
			return int64(100 + rnd.Intn(60000))
		}
	}
	fp := 80
	if style == "degenerate" {
		fp = 40
	}
	in := []int64{vtB(rnd.Intn(25) != 0), cap, vtB(rnd.Intn(12) != 0), nodeUsed,
		vtB(rnd.Intn(15) != 0), thr, vtB(rnd.Intn(2) == 0), lower, vtB(rnd.Intn(8) != 0), evthr,
		vtB(rnd.Intn(12) != 0), athr, vtB(rnd.Intn(12) != 0), alower, vtB(rnd.Intn(12) != 0), aprio,
		alloc(), alloc(), alloc(),
		0, vtB(rnd.Intn(100) < fp), vtB(rnd.Intn(100) < fp)}
	if style == "degenerate" && rnd.Intn(6) == 0 {
		in[1] = 0
	}
	pods := vtC11GenPods(rnd, unit, rnd.Intn(20) == 0, style == "boundary")
	if rnd.Intn(2) == 0 { // samples that survive the float64 cores round trip; otherwise they may lose a milli
		for p := 0; p < int(pods[0]); p++ {
			pods[1+15*p+11] = vtC11Exact(pods[1+15*p+11])
		}
	}
	// further containers (sidecars, init containers), BECPUEvict
	percent := 10
	if style == "be" {
		percent = 50
	}
	extras := vtC11GenExtras(rnd, pods, unit, percent)
	be, limit := vtC11GenBE(rnd, pods, extras, style)
	if (style == "be" && rnd.Intn(10) != 0) || (style != "be" && rnd.Intn(4) == 0) {
		in[19] = 1
		if style == "be" {
			in[0] = 1
		}
		vtC11Detie(rnd, pods, extras, unit)
		if style == "be" && rnd.Intn(2) == 0 {
			in[20], in[21] = 0, 0
		}
		if be[0] != 0 && rnd.Intn(2) == 0 && limit >= 0 {
			// evictByAllocatable: the batch-cpu allocatable plays the limit (free value, so the
			// allocatable task, whose float sites need a power of two, stays off)
			in[17], in[20] = limit, 0
		}
	}
	in = append(in, pods...)
	in = append(in, vtC11GenOracle(rnd)...)
	in = append(in, extras...)
	in = append(in, be...)
	return style, in
}

func TestVerifC11CPU(t *testing.T) {
	klog.LogToStderr(false)
	klog.SetOutput(io.Discard)
	vtMain(t, "C11", vtC11CPUGen, vtC11CPUExec)
}
