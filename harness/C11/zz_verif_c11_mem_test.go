//go:build verif

package memoryevict

import (
	"encoding/json"
	"fmt"
	"io"
	"math/rand"
	"strconv"
	"strings"
	"testing"
	"time"

	promstorage "github.com/prometheus/prometheus/storage"
	corev1 "k8s.io/api/core/v1"
	"k8s.io/apimachinery/pkg/api/resource"
	metav1 "k8s.io/apimachinery/pkg/apis/meta/v1"
	"k8s.io/apimachinery/pkg/types"
	"k8s.io/klog/v2"

	apiext "github.com/koordinator-sh/koordinator/apis/extension"
	slov1alpha1 "github.com/koordinator-sh/koordinator/apis/slo/v1alpha1"
	"github.com/koordinator-sh/koordinator/pkg/features"
	"github.com/koordinator-sh/koordinator/pkg/koordlet/metriccache"
	qosmanagerUtil "github.com/koordinator-sh/koordinator/pkg/koordlet/qosmanager/plugins/util"
	"github.com/koordinator-sh/koordinator/pkg/koordlet/statesinformer"
)

// C11, stream "mem": drives the real memoryEvict() (and its three victim-list builders) with a
// fake states informer / metric cache and a recording EvictionExecutor whose answers follow the
// generated oracle. Wire format: coq/C11/WireEvict.v.

var vtC11MemFeatures = []string{"BEMemoryEvict", "MemoryAllocatableEvict", "MemoryEvict"}

type vtC11SI struct {
	statesinformer.StatesInformer
	metas []*statesinformer.PodMeta
	node  *corev1.Node
	slo   *slov1alpha1.NodeSLO
}

func (s *vtC11SI) GetAllPods() []*statesinformer.PodMeta { return s.metas }
func (s *vtC11SI) GetNode() *corev1.Node                 { return s.node }
func (s *vtC11SI) GetNodeSLO() *slov1alpha1.NodeSLO      { return s.slo }

type vtC11MC struct{ metriccache.MetricCache }

func (m *vtC11MC) Querier(start, end time.Time) (metriccache.Querier, error) {
	return &vtC11Q{}, nil
}

type vtC11Q struct{}

func (q *vtC11Q) Query(meta metriccache.MetricMeta, hints *metriccache.QueryHints, result metriccache.MetricResult) error {
	return nil
}
func (q *vtC11Q) QueryAndClose(meta metriccache.MetricMeta, hints *metriccache.QueryHints, result metriccache.MetricResult) error {
	return nil
}
func (q *vtC11Q) Close() {}

// the aggregate results carry the generated sample (or none) for the queried series
type vtC11Factory struct {
	nodeKind, podKind string
	nodeOK            bool
	node              float64
	pod               map[string]float64
}

type vtC11Res struct {
	kind  string
	props map[string]string
	ok    bool
	v     float64
}

func (f *vtC11Factory) New(meta metriccache.MetricMeta) metriccache.AggregateResult {
	r := &vtC11Res{kind: meta.GetKind(), props: meta.GetProperties()}
	switch r.kind {
	case f.nodeKind:
		r.ok, r.v = f.nodeOK, f.node
	case f.podKind:
		r.v, r.ok = f.pod[r.props[string(metriccache.MetricPropertyPodUID)]]
	}
	return r
}
func (r *vtC11Res) GetKind() string                     { return r.kind }
func (r *vtC11Res) GetProperties() map[string]string    { return r.props }
func (r *vtC11Res) AddSeries(promstorage.Series) error  { return nil }
func (r *vtC11Res) TimeRangeDuration() time.Duration    { return time.Second }
func (r *vtC11Res) Count() int {
	if r.ok {
		return 1
	}
	return 0
}
func (r *vtC11Res) Value(t metriccache.AggregationType) (float64, error) {
	if !r.ok {
		return 0, fmt.Errorf("no sample")
	}
	return r.v, nil
}

type vtC11Rec struct {
	already  map[int64]bool
	flips    []int64
	fails    []int64
	nq, ne   int
	features []string
	events   []int64
	nev      int64
}

func vtC11PodID(pod *corev1.Pod) int64 {
	id, err := strconv.ParseInt(strings.TrimPrefix(pod.Name, "p"), 10, 64)
	if err != nil {
		return -1
	}
	return id
}

func (x *vtC11Rec) IsPodEvicted(pod *corev1.Pod) bool {
	id := vtC11PodID(pod)
	ans := x.already[id]
	if x.nq < len(x.flips) && x.flips[x.nq] != 0 {
		ans = !ans
	}
	x.nq++
	if ans {
		x.events = append(x.events, 1, 0, id, 1)
		x.nev++
	}
	return ans
}

func (x *vtC11Rec) Evict(pod *corev1.Pod, node *corev1.Node, reason string, message string) bool {
	ok := !(x.ne < len(x.fails) && x.fails[x.ne] != 0)
	x.ne++
	f := int64(99)
	for i, name := range x.features {
		if strings.HasPrefix(message, qosmanagerUtil.EvictReasonPrefix+name+",") {
			f = int64(i)
		}
	}
	x.events = append(x.events, 2, f, vtC11PodID(pod), vtB(ok))
	x.nev++
	return ok
}

type vtC11Cfg struct {
	enable                                 bool
	cap                                    int64
	usedOK                                 bool
	nodeUsed                               int64
	thrF, lowerF, evthrF                   bool
	thr, lower, evthr                      int64
	athrF, alowerF, aprioF                 bool
	athr, alower, aprio                    int64
	alloc                                  [3]int64
	feat                                   [3]bool
}

type vtC11Pod struct {
	id                                        int64
	be, active                                bool
	pol                                       int64
	prioNil                                   bool
	prio                                      int64
	enabled                                   bool
	evprio                                    int64
	hasLab                                    bool
	lab                                       int64
	hasMetric                                 bool
	used, req0, req1, req2                    int64
}

type vtC11Input struct {
	cfg     vtC11Cfg
	pods    []vtC11Pod
	already map[int64]bool
	flips   []int64
	fails   []int64
	extra   []vtC11Ctr
}

// a further container of a pod: kind 0 regular, 1 init, 2 sidecar (init container with restartPolicy Always)
type vtC11Ctr struct {
	pod, kind        int64
	req0, req1, req2 int64
}

func vtC11Decode(in []int64) vtC11Input {
	pos := 0
	next := func() int64 {
		if pos >= len(in) { // the trailer (further containers) is optional
			return 0
		}
		v := in[pos]
		pos++
		return v
	}
	nb := func() bool { return next() != 0 }
	var x vtC11Input
	c := &x.cfg
	c.enable, c.cap, c.usedOK, c.nodeUsed = nb(), next(), nb(), next()
	c.thrF, c.thr, c.lowerF, c.lower, c.evthrF, c.evthr = nb(), next(), nb(), next(), nb(), next()
	c.athrF, c.athr, c.alowerF, c.alower, c.aprioF, c.aprio = nb(), next(), nb(), next(), nb(), next()
	c.alloc = [3]int64{next(), next(), next()}
	c.feat = [3]bool{nb(), nb(), nb()}
	for n := int(next()); n > 0; n-- {
		var p vtC11Pod
		p.id, p.be, p.active, p.pol, p.prioNil, p.prio = next(), nb(), nb(), next(), nb(), next()
		p.enabled, p.evprio, p.hasLab, p.lab, p.hasMetric, p.used = nb(), next(), nb(), next(), nb(), next()
		p.req0, p.req1, p.req2 = next(), next(), next()
		x.pods = append(x.pods, p)
	}
	x.already = map[int64]bool{}
	for a := int(next()); a > 0; a-- {
		x.already[next()] = true
	}
	for a := int(next()); a > 0; a-- {
		x.flips = append(x.flips, next())
	}
	for a := int(next()); a > 0; a-- {
		x.fails = append(x.fails, next())
	}
	for a := int(next()); a > 0; a-- {
		x.extra = append(x.extra, vtC11Ctr{pod: next(), kind: next(), req0: next(), req1: next(), req2: next()})
	}
	return x
}

// vtC11BuildPod renders a pod description as labels / annotations / spec, the way users write them.
func vtC11BuildPod(p vtC11Pod, extra []vtC11Ctr, featNames []string, plain corev1.ResourceName, batch, mid corev1.ResourceName, plainQty func(int64) resource.Quantity) *corev1.Pod {
	name := fmt.Sprintf("p%03d", p.id)
	pod := &corev1.Pod{ObjectMeta: metav1.ObjectMeta{Namespace: "ns", Name: name, UID: types.UID(name),
		Labels: map[string]string{}, Annotations: map[string]string{}}}
	if p.be {
		pod.Labels[apiext.LabelPodQoS] = string(apiext.QoSBE)
	} else {
		pod.Labels[apiext.LabelPodQoS] = string(apiext.QoSLS)
	}
	if p.enabled {
		pod.Labels[apiext.LabelPodEvictEnabled] = "true"
	} else if p.id%2 == 0 {
		pod.Labels[apiext.LabelPodEvictEnabled] = "false"
	}
	if p.hasLab {
		pod.Labels[apiext.LabelPodPriority] = strconv.FormatInt(p.lab, 10)
	} else if p.id%3 == 0 {
		pod.Labels[apiext.LabelPodPriority] = "x1"
	}
	switch {
	case p.pol == -1:
	case p.pol < 0:
		pod.Annotations[apiext.AnnotationPodEvictPolicy] = "not-json"
	default:
		names := []string{}
		for f, n := range featNames {
			if p.pol&(1<<uint(f)) != 0 {
				names = append(names, n)
			}
		}
		if p.pol&8 != 0 {
			names = append(names, "SomethingElse")
		}
		b, _ := json.Marshal(names)
		pod.Annotations[apiext.AnnotationPodEvictPolicy] = string(b)
	}
	// the annotation is an int32 STRING, read in base 10: users also write it zero padded or with
	// an explicit sign; base prefixes and digit separators are not numbers (-> implicit 0)
	if p.evprio != 0 {
		v := strconv.FormatInt(p.evprio, 10)
		switch (p.id + p.evprio%7 + 7) % 4 {
		case 1:
			v = fmt.Sprintf("%03d", p.evprio)
		case 2:
			if p.evprio > 0 {
				v = "+" + v
			}
		}
		pod.Annotations[apiext.AnnotationPodEvictionPriority] = v
	} else if p.id%3 == 1 {
		pod.Annotations[apiext.AnnotationPodEvictionPriority] = []string{"abc", "0x10", "1_0", "0b11", "0o17"}[(p.id/3+p.prio%5+5)%5]
	} else if p.id%3 == 2 {
		pod.Annotations[apiext.AnnotationPodEvictionPriority] = []string{"0", "000", "-0"}[(p.id/3)%3]
	}
	if !p.prioNil {
		v := int32(p.prio)
		pod.Spec.Priority = &v
	}
	switch {
	case p.active && p.id%2 == 0:
		pod.Status.Phase = corev1.PodPending
	case p.active:
		pod.Status.Phase = corev1.PodRunning
	case p.id%2 == 0:
		pod.Status.Phase = corev1.PodSucceeded
	default:
		pod.Status.Phase = corev1.PodFailed
	}
	mk := func(name string, r0, r1, r2 int64) corev1.Container {
		reqs := corev1.ResourceList{}
		if r0 != 0 {
			reqs[plain] = plainQty(r0)
		}
		if r1 != 0 {
			reqs[batch] = *resource.NewQuantity(r1, resource.DecimalSI)
		}
		if r2 != 0 {
			reqs[mid] = *resource.NewQuantity(r2, resource.DecimalSI)
		}
		return corev1.Container{Name: name, Resources: corev1.ResourceRequirements{Requests: reqs}}
	}
	pod.Spec.Containers = []corev1.Container{mk("c", p.req0, p.req1, p.req2)}
	for i, k := range extra {
		if k.pod != p.id {
			continue
		}
		c := mk(fmt.Sprintf("x%d", i), k.req0, k.req1, k.req2)
		switch k.kind {
		case 0:
			pod.Spec.Containers = append(pod.Spec.Containers, c)
		case 2:
			always := corev1.ContainerRestartPolicyAlways
			c.RestartPolicy = &always
			pod.Spec.InitContainers = append(pod.Spec.InitContainers, c)
		default:
			pod.Spec.InitContainers = append(pod.Spec.InitContainers, c)
		}
	}
	return pod
}

func vtC11Ids(infos []*qosmanagerUtil.PodEvictInfo) []int64 {
	out := []int64{int64(len(infos))}
	for _, i := range infos {
		out = append(out, vtC11PodID(i.Pod))
	}
	return out
}

func vtC11MemExec(in []int64) []int64 {
	x := vtC11Decode(in)
	c := x.cfg
	memQty := func(v int64) resource.Quantity { return *resource.NewQuantity(v, resource.BinarySI) }
	var metas []*statesinformer.PodMeta
	podMetric := map[string]float64{}
	for _, p := range x.pods {
		pod := vtC11BuildPod(p, x.extra, vtC11MemFeatures, corev1.ResourceMemory, apiext.BatchMemory, apiext.MidMemory, memQty)
		metas = append(metas, &statesinformer.PodMeta{Pod: pod})
		if p.hasMetric {
			podMetric[string(pod.UID)] = float64(p.used)
		}
	}
	node := &corev1.Node{ObjectMeta: metav1.ObjectMeta{Name: "node"}}
	node.Status.Capacity = corev1.ResourceList{corev1.ResourceMemory: memQty(c.cap)}
	node.Status.Allocatable = corev1.ResourceList{}
	for r, name := range []corev1.ResourceName{corev1.ResourceMemory, apiext.BatchMemory, apiext.MidMemory} {
		if c.alloc[r] >= 0 {
			node.Status.Allocatable[name] = memQty(c.alloc[r])
		}
	}
	th := &slov1alpha1.ResourceThresholdStrategy{Enable: &c.enable}
	if c.thrF {
		th.MemoryEvictThresholdPercent = &c.thr
	}
	if c.lowerF {
		th.MemoryEvictLowerPercent = &c.lower
	}
	if c.evthrF {
		v := int32(c.evthr)
		th.EvictEnabledPriorityThreshold = &v
	}
	if c.athrF {
		th.MemoryAllocatableEvictThresholdPercent = &c.athr
	}
	if c.alowerF {
		th.MemoryAllocatableEvictLowerPercent = &c.alower
	}
	if c.aprioF {
		v := int32(c.aprio)
		th.AllocatableEvictPriorityThreshold = &v
	}
	si := &vtC11SI{metas: metas, node: node, slo: &slov1alpha1.NodeSLO{Spec: slov1alpha1.NodeSLOSpec{ResourceUsedThresholdWithBE: th}}}
	metriccache.DefaultAggregateResultFactory = &vtC11Factory{
		nodeKind: string(metriccache.NodeMetricMemoryUsage), podKind: string(metriccache.PodMetricMemoryUsage),
		nodeOK: c.usedOK, node: float64(c.nodeUsed), pod: podMetric}
	if err := features.DefaultMutableKoordletFeatureGate.SetFromMap(map[string]bool{
		vtC11MemFeatures[0]: c.feat[0], vtC11MemFeatures[1]: c.feat[1], vtC11MemFeatures[2]: c.feat[2]}); err != nil {
		panic(err)
	}
	rec := &vtC11Rec{already: x.already, flips: x.flips, fails: x.fails, features: vtC11MemFeatures}
	m := &memoryEvictor{statesInformer: si, metricCache: &vtC11MC{}, metricCollectInterval: time.Second, evictExecutor: rec}

	obs := vtC11Ids(m.getSortedBEPodInfos(vtC11MemFeatures[0], th, si.GetAllPods()))
	if c.aprioF {
		obs = append(obs, vtC11Ids(m.getPodEvictInfoAndSortByAllocatable(vtC11MemFeatures[1], th, si.GetAllPods()))...)
	} else {
		obs = append(obs, 0)
	}
	if c.evthrF {
		obs = append(obs, vtC11Ids(m.getPodEvictInfoAndSortByUsed(vtC11MemFeatures[2], th, si.GetAllPods()))...)
	} else {
		obs = append(obs, 0)
	}
	m.memoryEvict()
	obs = append(obs, rec.nev)
	obs = append(obs, rec.events...)
	return obs
}

// vtC11GenPods draws a pod set; usage and request figures are pairwise distinct so that the
// published order has no full-key ties (sort.Slice orders those arbitrarily).
func vtC11GenPods(rnd *rand.Rand, unit int64, allNil bool, boundary bool) []int64 {
	n := 1 + rnd.Intn(8)
	if rnd.Intn(12) == 0 {
		n = 0
	}
	palette := []int64{5000 + int64(rnd.Intn(1000)), 7000 + int64(rnd.Intn(1000)), 9000 + int64(rnd.Intn(1000)),
		3000 + int64(rnd.Intn(1000)), int64(1 + rnd.Intn(200)), 6500, 5999, 7999}
	pick := rnd.Perm(len(palette))[:3]
	out := []int64{int64(n)}
	for _, i := range rnd.Perm(n) {
		id := int64(i + 1)
		pol := int64(-1)
		switch x := rnd.Intn(20); {
		case x == 0:
			pol = -2
		case x < 6:
			pol = int64(rnd.Intn(16))
		}
		prio := palette[pick[rnd.Intn(3)]]
		switch rnd.Intn(30) {
		case 0:
			prio = 0
		case 1:
			prio = -int64(1 + rnd.Intn(50))
		}
		evprio := int64(0)
		if rnd.Intn(10) < 4 {
			evprio = []int64{-1, 5, 100, 7, 8, 9, 10, 12, 64}[rnd.Intn(9)]
		}
		lab := []int64{1000, 2000, 3000, -5}[rnd.Intn(4)]
		hasLab := rnd.Intn(10) < 3
		if boundary {
			// the three sort keys at and around the int32 limits, 0, +-1, mixed signs
			// (EvictionPriority and Priority are int32 in the code, LabelPriority int64)
			const maxI32, minI32 = int64(1)<<31 - 1, -(int64(1) << 31)
			if rnd.Intn(10) < 7 {
				evprio = []int64{minI32, minI32 + 1, -1000, -1, 0, 1, 1000, maxI32 - 1, maxI32}[rnd.Intn(9)]
			}
			if rnd.Intn(10) < 5 {
				prio = []int64{minI32, minI32 + 1, -1, 1, maxI32 - 1, maxI32, 5000}[rnd.Intn(7)]
			}
			if rnd.Intn(10) < 6 {
				hasLab = true
				lab = []int64{minI32 - 1, minI32, minI32 + 1, -1, 0, 1, maxI32 - 1, maxI32, maxI32 + 1, 1 << 40, -(1 << 40)}[rnd.Intn(11)]
			}
		}
		used := int64(1+rnd.Intn(50))*unit + id
		out = append(out, id, vtB(rnd.Intn(2) == 0), vtB(rnd.Intn(100) < 88), pol, vtB(allNil), prio,
			vtB(rnd.Intn(100) < 82), evprio, vtB(hasLab), lab, vtB(rnd.Intn(100) < 88), used,
			int64(rnd.Intn(40))*unit+id*8, int64(rnd.Intn(40))*unit+id*8+1, int64(rnd.Intn(40))*unit+id*8+2)
	}
	return out
}

func vtC11GenOracle(rnd *rand.Rand) []int64 {
	var already []int64
	for p := 1; p <= 8; p++ {
		if rnd.Intn(10) == 0 {
			already = append(already, int64(p))
		}
	}
	out := append([]int64{int64(len(already))}, already...)
	nf := rnd.Intn(7)
	out = append(out, int64(nf))
	for a := 0; a < nf; a++ {
		out = append(out, vtB(rnd.Intn(25) == 0))
	}
	ng := rnd.Intn(9)
	out = append(out, int64(ng))
	for a := 0; a < ng; a++ {
		out = append(out, vtB(rnd.Intn(6) == 0))
	}
	return out
}

func vtC11MemGen(rnd *rand.Rand, idx int) (string, []int64) {
	style := []string{"pressure", "pressure", "pressure", "mixed", "calm", "degenerate", "boundary", "boundary"}[rnd.Intn(8)]
	unit := int64(1) << uint([]int{20, 24, 26}[rnd.Intn(3)])
	cap := int64(8+rnd.Intn(120)) << 30
	pct := int64(50 + rnd.Intn(51))
	if style == "pressure" {
		pct = int64(80 + rnd.Intn(21))
	}
	if style == "calm" {
		pct = int64(20 + rnd.Intn(50))
	}
	nodeUsed := cap/100*pct + rnd.Int63n(1<<20)
	thr := int64(60 + rnd.Intn(36))
	lower := thr - int64(1+rnd.Intn(30))
	if rnd.Intn(20) == 0 {
		lower = thr + int64(rnd.Intn(3))
	}
	if style == "degenerate" && rnd.Intn(4) == 0 {
		thr = -1
	}
	// a release of a few pods' usage: node usage just above the lower bound
	if style == "pressure" && rnd.Intn(2) == 0 {
		cap = int64(1+rnd.Intn(8)) << 30
		nodeUsed = cap / 100 * pct
	}
	evthr := []int64{5999, 7999, 9999, 3999, 6999}[rnd.Intn(5)]
	athr := int64(rnd.Intn(100))
	alower := []int64{0, 25, 50, 75}[rnd.Intn(4)]
	if rnd.Intn(2) == 0 {
		alower = int64(rnd.Intn(100)) // float64(lower)/100 is not a binary fraction
	}
	if rnd.Intn(3) != 0 && alower >= athr {
		alower = int64(rnd.Intn(int(athr + 1)))
	}
	aprio := []int64{5999, 7999, 7999, 3999, 8500}[rnd.Intn(5)]
	if style == "boundary" {
		evthr = []int64{int64(1)<<31 - 1, 9999, 7999, -1}[rnd.Intn(4)]
		aprio = []int64{7999, 7999, -1, -(int64(1) << 31)}[rnd.Intn(4)]
	}
	alloc := func() int64 {
		switch rnd.Intn(10) {
		case 0:
			return -1
		case 1:
			return 0
		case 2, 3, 4:
			return int64(1) << uint(22+rnd.Intn(8))
		default:
			return int64(1)<<20 + rnd.Int63n(int64(1)<<30)
		}
	}
	fp := 75
	if style == "degenerate" {
		fp = 40
	}
	in := []int64{vtB(rnd.Intn(25) != 0), cap, vtB(rnd.Intn(12) != 0), nodeUsed,
		vtB(rnd.Intn(15) != 0), thr, vtB(rnd.Intn(2) == 0), lower, vtB(rnd.Intn(8) != 0), evthr,
		vtB(rnd.Intn(12) != 0), athr, vtB(rnd.Intn(12) != 0), alower, vtB(rnd.Intn(12) != 0), aprio,
		alloc(), alloc(), alloc(),
		vtB(rnd.Intn(100) < fp), vtB(rnd.Intn(100) < fp), vtB(rnd.Intn(100) < fp)}
	if style == "degenerate" && rnd.Intn(6) == 0 {
		in[1] = 0
	}
	pods := vtC11GenPods(rnd, unit, rnd.Intn(20) == 0, style == "boundary")
	in = append(in, pods...)
	in = append(in, vtC11GenOracle(rnd)...)
	// further containers of some pods (regular, init, sidecar); amounts are multiples of unit (init
	// containers: plus a per-pod residue) so that the pods' summed figures stay pairwise distinct
	extras := []int64{0}
	for p := 0; p < int(pods[0]); p++ {
		id := pods[1+15*p]
		if rnd.Intn(100) >= 25 {
			continue
		}
		for k := 1 + rnd.Intn(3); k > 0; k-- {
			kind := []int64{0, 1, 2, 2, 2}[rnd.Intn(5)]
			amount := func() int64 {
				if rnd.Intn(3) == 0 {
					return 0
				}
				return int64(1+rnd.Intn(40)) * unit
			}
			r0 := amount()
			if kind == 1 && r0 != 0 {
				r0 += id*8 + 4
			}
			extras = append(extras, id, kind, r0, amount(), amount())
			extras[0]++
		}
	}
	in = append(in, extras...)
	return style, in
}

func TestVerifC11Mem(t *testing.T) {
	klog.LogToStderr(false)
	klog.SetOutput(io.Discard)
	vtMain(t, "C11", vtC11MemGen, vtC11MemExec)
}
