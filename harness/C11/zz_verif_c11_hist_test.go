//go:build verif

package util

import (
	"context"
	"fmt"
	"math/rand"
	"strconv"
	"strings"
	"testing"

	corev1 "k8s.io/api/core/v1"
	policyv1 "k8s.io/api/policy/v1"
	apierrors "k8s.io/apimachinery/pkg/api/errors"
	metav1 "k8s.io/apimachinery/pkg/apis/meta/v1"
	"k8s.io/apimachinery/pkg/types"
	clientset "k8s.io/client-go/kubernetes"
	clientsetfake "k8s.io/client-go/kubernetes/fake"
	corev1client "k8s.io/client-go/kubernetes/typed/core/v1"

	"github.com/koordinator-sh/koordinator/pkg/koordlet/util/testutil"
)

// C11, stream "hist": 1..3 consecutive KillAndEvictPods rounds against the REAL
// DefaultEvictionExecutor{OnlyEvictByAPI} + Evictor. The API server is a thin wrapper around the
// fake clientset (no reactor): it rejects the eviction calls the generated pattern names (429)
// and records the accepted ones. A delegating recorder logs what the real executor answers.
// Wire format: coq/C11/Extract_hist.v. Shares the helpers of zz_verif_c11_kill_test.go.

type vtC11API struct {
	fails    []int64
	calls    int
	accepted []int64
}

type vtC11CS struct {
	clientset.Interface
	api *vtC11API
}

func (c *vtC11CS) CoreV1() corev1client.CoreV1Interface {
	return &vtC11Core{CoreV1Interface: c.Interface.CoreV1(), api: c.api}
}

type vtC11Core struct {
	corev1client.CoreV1Interface
	api *vtC11API
}

func (c *vtC11Core) Pods(ns string) corev1client.PodInterface {
	return &vtC11PodsAPI{PodInterface: c.CoreV1Interface.Pods(ns), api: c.api}
}

type vtC11PodsAPI struct {
	corev1client.PodInterface
	api *vtC11API
}

func (p *vtC11PodsAPI) EvictV1(ctx context.Context, eviction *policyv1.Eviction) error {
	c := p.api.calls
	p.api.calls++
	if c < len(p.api.fails) && p.api.fails[c] != 0 {
		return apierrors.NewTooManyRequests("Cannot evict pod as it would violate the pod's disruption budget.", 1)
	}
	id, err := strconv.ParseInt(strings.TrimPrefix(eviction.Name, "p"), 10, 64)
	if err != nil {
		id = -1
	}
	p.api.accepted = append(p.api.accepted, id)
	return nil
}

// vtC11Deleg logs the answers of the real executor
type vtC11Deleg struct {
	real   EvictionExecutor
	where  map[*corev1.Pod][2]int64
	events []int64
	nev    int64
}

func (x *vtC11Deleg) pos(pod *corev1.Pod) (int64, int64) {
	if p, ok := x.where[pod]; ok {
		return p[0], p[1]
	}
	return vtC11Unknown, vtC11Unknown
}

func (x *vtC11Deleg) IsPodEvicted(pod *corev1.Pod) bool {
	ans := x.real.IsPodEvicted(pod)
	if ans {
		j, k := x.pos(pod)
		x.events = append(x.events, 1, j, j, k, 1)
		x.nev++
	}
	return ans
}

func (x *vtC11Deleg) Evict(pod *corev1.Pod, node *corev1.Node, reason string, message string) bool {
	ok := x.real.Evict(pod, node, reason, message)
	rt := vtC11Unknown
	var n int64
	if _, err := fmt.Sscanf(message, "task%02d,", &n); err == nil {
		rt = n
	}
	j, k := x.pos(pod)
	x.events = append(x.events, 2, rt, j, k, vtB(ok))
	x.nev++
	return ok
}

func vtC11HistExec(in []int64) []int64 {
	pos := 0
	next := func() int64 { v := in[pos]; pos++; return v }
	nt, nr, R := next(), next(), int(next())
	api := &vtC11API{}
	evictor := NewEvictor(&vtC11CS{Interface: clientsetfake.NewSimpleClientset(), api: api}, &testutil.FakeRecorder{}, policyv1.SchemeGroupVersion.Version)
	stop := make(chan struct{})
	defer close(stop)
	if err := evictor.Start(stop); err != nil {
		panic(err)
	}
	real := &DefaultEvictionExecutor{OnlyEvictByAPI: true, Evictor: evictor}
	type round struct {
		tasks []*EvictTaskInfo
		where map[*corev1.Pod][2]int64
	}
	var rounds []round
	for r := 0; r < R; r++ {
		T := int(next())
		rd := round{where: map[*corev1.Pod][2]int64{}}
		table := map[*corev1.Pod][][]int64{}
		for j := 0; j < T; j++ {
			tg := next()
			n := int(next())
			var need corev1.ResourceList
			if n > 0 || j%2 == 1 {
				need = corev1.ResourceList{}
			}
			for a := 0; a < n; a++ {
				rs, v := next(), next()
				if _, dup := need[vtC11Res(rs)]; !dup {
					need[vtC11Res(rs)] = vtC11Qty(rs, v)
				}
			}
			P := int(next())
			infos := make([]*PodEvictInfo, 0, P)
			for k := 0; k < P; k++ {
				id := next()
				name := fmt.Sprintf("p%03d", id)
				pod := &corev1.Pod{ObjectMeta: metav1.ObjectMeta{Namespace: "ns", Name: name, UID: types.UID(name + "-uid")}}
				rows := make([][]int64, T)
				for i := 0; i < T; i++ {
					rows[i] = make([]int64, nr)
					for q := int64(0); q < nr; q++ {
						rows[i][q] = next()
					}
				}
				table[pod] = rows
				rd.where[pod] = [2]int64{int64(j), int64(k)}
				infos = append(infos, &PodEvictInfo{Pod: pod})
			}
			i := j
			rd.tasks = append(rd.tasks, &EvictTaskInfo{
				Reason:            fmt.Sprintf("task%02d", j),
				SortedEvictPods:   infos,
				ReleaseTarget:     vtC11Target(tg),
				ToReleaseResource: need,
				GetPodResourceFunc: func(info *PodEvictInfo) corev1.ResourceList {
					rows, ok := table[info.Pod]
					if !ok {
						return nil
					}
					rl := corev1.ResourceList{}
					for q, v := range rows[i] {
						if v != 0 {
							rl[vtC11Res(int64(q))] = vtC11Qty(int64(q), v)
						}
					}
					return rl
				},
			})
		}
		rounds = append(rounds, rd)
	}
	for a := int(next()); a > 0; a-- {
		api.fails = append(api.fails, next())
	}

	var obs []int64
	for _, rd := range rounds {
		rec := &vtC11Deleg{real: real, where: rd.where}
		api.accepted = nil
		released, newly := KillAndEvictPods(rec, &corev1.Node{}, rd.tasks)
		obs = append(obs, rec.nev)
		obs = append(obs, rec.events...)
		obs = append(obs, vtB(newly))
		for t := int64(0); t < nt; t++ {
			_, ok := released[vtC11Target(t)]
			obs = append(obs, vtB(ok))
		}
		for t := int64(0); t < nt; t++ {
			rl := released[vtC11Target(t)]
			for q := int64(0); q < nr; q++ {
				if v, ok := rl[vtC11Res(q)]; ok {
					obs = append(obs, vtC11Val(q, v))
				} else {
					obs = append(obs, 0)
				}
			}
		}
		obs = append(obs, int64(len(api.accepted)))
		obs = append(obs, api.accepted...)
	}
	return obs
}

// one round: T tasks over pods 1..npods whose per-resource amounts are [base]
func vtC11GenRound(rnd *rand.Rand, nt, nr, npods int, base [][]int64) []int64 {
	T := 1 + rnd.Intn(3)
	out := []int64{int64(T)}
	for j := 0; j < T; j++ {
		out = append(out, int64(rnd.Intn(nt)))
		var pairs []int64
		for _, r := range rnd.Perm(nr) {
			if rnd.Intn(4) == 0 {
				continue
			}
			pairs = append(pairs, int64(r), int64(1+rnd.Intn(12)))
		}
		out = append(out, int64(len(pairs)/2))
		out = append(out, pairs...)
		perm := rnd.Perm(npods)
		P := 1 + rnd.Intn(npods)
		if rnd.Intn(2) == 0 {
			P = npods
		}
		out = append(out, int64(P))
		for _, p := range perm[:P] {
			id := p + 1
			out = append(out, int64(id))
			for i := 0; i < T; i++ {
				for r := 0; r < nr; r++ {
					v := base[id][r]
					if rnd.Intn(12) == 0 {
						v = int64(rnd.Intn(5))
					}
					out = append(out, v)
				}
			}
		}
	}
	return out
}

func vtC11HistGen(rnd *rand.Rand, idx int) (string, []int64) {
	nt := 1 + rnd.Intn(2)
	nr := 1 + rnd.Intn(2)
	R := 1 + rnd.Intn(3)
	npods := 2 + rnd.Intn(5)
	base := make([][]int64, npods+1)
	for p := range base {
		base[p] = make([]int64, nr)
		for r := range base[p] {
			if rnd.Intn(10) < 8 {
				base[p][r] = int64(1 + rnd.Intn(6))
			}
		}
	}
	in := []int64{int64(nt), int64(nr), int64(R)}
	var prev []int64
	for r := 0; r < R; r++ {
		if prev == nil || rnd.Intn(10) < 4 {
			prev = vtC11GenRound(rnd, nt, nr, npods, base)
		} // else: the same pressure is seen again in the next round
		in = append(in, prev...)
	}
	ng := rnd.Intn(10)
	rate := []int{2, 3, 5}[rnd.Intn(3)]
	in = append(in, int64(ng))
	for a := 0; a < ng; a++ {
		in = append(in, vtB(rnd.Intn(rate) == 0))
	}
	return fmt.Sprintf("rounds%d", R), in
}

func TestVerifC11Hist(t *testing.T) { vtMain(t, "C11", vtC11HistGen, vtC11HistExec) }
