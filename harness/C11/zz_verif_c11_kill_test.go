//go:build verif

package util

import (
	"fmt"
	"math/rand"
	"strings"
	"testing"

	corev1 "k8s.io/api/core/v1"
	"k8s.io/apimachinery/pkg/api/resource"
	metav1 "k8s.io/apimachinery/pkg/apis/meta/v1"
)

// C11, stream "kill": drives the real KillAndEvictPods with a recording EvictionExecutor whose
// answers follow the generated oracle. Wire format: see coq/C11/Extract.v.

const vtC11Unknown = int64(999999)

var vtC11Targets = []ReleaseTargetType{ReleaseTargetTypeResourceUsed, ReleaseTargetTypeResourceRequest, ReleaseTargetTypeBatchResourceRequest}
var vtC11Resources = []corev1.ResourceName{corev1.ResourceCPU, corev1.ResourceMemory, "kubernetes.io/batch-cpu", "kubernetes.io/mid-memory"}

func vtC11Target(t int64) ReleaseTargetType {
	if t >= 0 && int(t) < len(vtC11Targets) {
		return vtC11Targets[t]
	}
	return ReleaseTargetType(fmt.Sprintf("target%d", t))
}

func vtC11Res(r int64) corev1.ResourceName {
	if r >= 0 && int(r) < len(vtC11Resources) {
		return vtC11Resources[r]
	}
	return corev1.ResourceName(fmt.Sprintf("res%d", r))
}

func vtC11Qty(r int64, v int64) resource.Quantity {
	if r == 0 {
		return *resource.NewMilliQuantity(v, resource.DecimalSI)
	}
	return *resource.NewQuantity(v, resource.BinarySI)
}

func vtC11Val(r int64, q resource.Quantity) int64 {
	if r == 0 {
		return q.MilliValue()
	}
	return q.Value()
}

type vtC11Recorder struct {
	already map[string]bool
	flips   []int64
	fails   []int64
	nq, ne  int
	where   map[*corev1.Pod][2]int64
	events  []int64
	nev     int64
}

func (x *vtC11Recorder) pos(pod *corev1.Pod) (int64, int64) {
	if p, ok := x.where[pod]; ok {
		return p[0], p[1]
	}
	return vtC11Unknown, vtC11Unknown
}

func (x *vtC11Recorder) IsPodEvicted(pod *corev1.Pod) bool {
	ans := x.already[pod.Namespace+"/"+pod.Name]
	if x.nq < len(x.flips) && x.flips[x.nq] != 0 {
		ans = !ans
	}
	x.nq++
	if ans {
		j, k := x.pos(pod)
		x.events = append(x.events, 1, j, j, k, 1)
		x.nev++
	}
	return ans
}

func (x *vtC11Recorder) Evict(pod *corev1.Pod, node *corev1.Node, reason string, message string) bool {
	ok := !(x.ne < len(x.fails) && x.fails[x.ne] != 0)
	x.ne++
	rt := vtC11Unknown
	var n int64
	if strings.HasPrefix(message, "task") {
		if _, err := fmt.Sscanf(message, "task%02d,", &n); err == nil {
			rt = n
		}
	}
	j, k := x.pos(pod)
	x.events = append(x.events, 2, rt, j, k, vtB(ok))
	x.nev++
	return ok
}

func vtC11KillExec(in []int64) []int64 {
	pos := 0
	next := func() int64 { v := in[pos]; pos++; return v }
	nt, nr, T := next(), next(), int(next())
	rec := &vtC11Recorder{already: map[string]bool{}, where: map[*corev1.Pod][2]int64{}}
	// table[pod object] -> per task i -> per resource r
	table := map[*corev1.Pod][][]int64{}
	tasks := make([]*EvictTaskInfo, 0, T)
	for j := 0; j < T; j++ {
		tg := next()
		n := int(next())
		var need corev1.ResourceList
		if n > 0 || j%2 == 1 {
			need = corev1.ResourceList{}
		}
		for a := 0; a < n; a++ {
			r, v := next(), next()
			if _, dup := need[vtC11Res(r)]; !dup {
				need[vtC11Res(r)] = vtC11Qty(r, v)
			}
		}
		P := int(next())
		infos := make([]*PodEvictInfo, 0, P)
		for k := 0; k < P; k++ {
			id := next()
			pod := &corev1.Pod{ObjectMeta: metav1.ObjectMeta{Namespace: "ns", Name: fmt.Sprintf("p%03d", id)}}
			rows := make([][]int64, T)
			for i := 0; i < T; i++ {
				rows[i] = make([]int64, nr)
				for r := int64(0); r < nr; r++ {
					rows[i][r] = next()
				}
			}
			table[pod] = rows
			rec.where[pod] = [2]int64{int64(j), int64(k)}
			infos = append(infos, &PodEvictInfo{Pod: pod})
		}
		i := j
		tasks = append(tasks, &EvictTaskInfo{
			Reason:            fmt.Sprintf("task%02d", j),
			SortedEvictPods:   infos,
			ReleaseTarget:     vtC11Target(tg),
			ToReleaseResource: need,
			GetPodResourceFunc: func(info *PodEvictInfo) corev1.ResourceList {
				rows, ok := table[info.Pod]
				if !ok {
					return nil
				}
				var rl corev1.ResourceList
				p := rec.where[info.Pod]
				if (int64(i)+p[0]+p[1])%2 == 1 {
					rl = corev1.ResourceList{}
				}
				for r, v := range rows[i] {
					if v != 0 {
						if rl == nil {
							rl = corev1.ResourceList{}
						}
						rl[vtC11Res(int64(r))] = vtC11Qty(int64(r), v)
					}
				}
				return rl
			},
		})
	}
	for a := int(next()); a > 0; a-- {
		rec.already[fmt.Sprintf("ns/p%03d", next())] = true
	}
	for a := int(next()); a > 0; a-- {
		rec.flips = append(rec.flips, next())
	}
	for a := int(next()); a > 0; a-- {
		rec.fails = append(rec.fails, next())
	}

	released, newly := KillAndEvictPods(rec, &corev1.Node{}, tasks)

	obs := append([]int64{rec.nev}, rec.events...)
	obs = append(obs, vtB(newly))
	for t := int64(0); t < nt; t++ {
		_, ok := released[vtC11Target(t)]
		obs = append(obs, vtB(ok))
	}
	for t := int64(0); t < nt; t++ {
		rl := released[vtC11Target(t)]
		for r := int64(0); r < nr; r++ {
			if q, ok := rl[vtC11Res(r)]; ok {
				obs = append(obs, vtC11Val(r, q))
			} else {
				obs = append(obs, 0)
			}
		}
	}
	return obs
}

func vtC11KillGen(rnd *rand.Rand, idx int) (string, []int64) {
	style := []string{"small", "small", "small", "tight", "large", "degenerate"}[rnd.Intn(6)]
	nt := 1 + rnd.Intn(3)
	nr := 1 + rnd.Intn(3)
	T := 1 + rnd.Intn(3)
	if rnd.Intn(8) == 0 {
		T = 4
	}
	if style == "degenerate" && rnd.Intn(5) == 0 {
		T = 0
	}
	npods := 1 + rnd.Intn(6)
	scale := int64(1)
	if style == "large" {
		scale = int64(1)<<30 + rnd.Int63n(1<<20)
	}
	// what a pod "has" per resource; 0 = releases nothing of it
	base := make([][]int64, npods+1)
	for p := range base {
		base[p] = make([]int64, nr)
		for r := range base[p] {
			if rnd.Intn(10) < 7 {
				base[p][r] = int64(1+rnd.Intn(6)) * scale
			}
		}
	}
	// per task: how its function reads the pod: 0 = base, 1 = base but nothing for "other class"
	// pods (odd ids), 2 = own random table, 3 = one resource only
	mode := make([]int, T)
	for i := range mode {
		mode[i] = rnd.Intn(4)
	}
	in := []int64{int64(nt), int64(nr), int64(T)}
	for j := 0; j < T; j++ {
		in = append(in, int64(rnd.Intn(nt)))
		// need
		var pairs []int64
		for _, r := range rnd.Perm(nr) {
			if rnd.Intn(3) == 0 && style != "tight" {
				continue
			}
			var v int64
			switch x := rnd.Intn(12); {
			case x == 0:
				v = 0
			case x == 1:
				v = -int64(rnd.Intn(4))
			case x < 8:
				v = int64(1+rnd.Intn(9)) * scale
			case x < 10:
				v = int64(1+rnd.Intn(25)) * scale
			default:
				v = int64(1+rnd.Intn(9))*scale + int64(rnd.Intn(3)) - 1
			}
			pairs = append(pairs, int64(r), v)
		}
		if style == "degenerate" && rnd.Intn(3) == 0 {
			pairs = nil
		}
		in = append(in, int64(len(pairs)/2))
		in = append(in, pairs...)
		// list
		perm := rnd.Perm(npods)
		P := rnd.Intn(npods + 1)
		if style == "tight" {
			P = npods
		}
		var ids []int64
		for _, p := range perm[:P] {
			ids = append(ids, int64(p+1))
			if rnd.Intn(12) == 0 {
				ids = append(ids, int64(p+1)) // the same pod listed twice
			}
		}
		in = append(in, int64(len(ids)))
		for _, id := range ids {
			in = append(in, id)
			for i := 0; i < T; i++ {
				for r := 0; r < nr; r++ {
					v := base[id][r]
					switch mode[i] {
					case 1:
						if id%2 == 1 {
							v = 0
						}
					case 2:
						v = int64(rnd.Intn(7)) * scale
						if rnd.Intn(15) == 0 {
							v = -v
						}
					case 3:
						if r != i%nr {
							v = 0
						}
					}
					in = append(in, v)
				}
			}
		}
	}
	var already []int64
	for p := 1; p <= npods; p++ {
		if rnd.Intn(7) == 0 {
			already = append(already, int64(p))
		}
	}
	in = append(in, int64(len(already)))
	in = append(in, already...)
	nf := rnd.Intn(9)
	in = append(in, int64(nf))
	for a := 0; a < nf; a++ {
		in = append(in, vtB(rnd.Intn(20) == 0))
	}
	ng := rnd.Intn(9)
	in = append(in, int64(ng))
	for a := 0; a < ng; a++ {
		in = append(in, vtB(rnd.Intn(5) == 0))
	}
	return style, in
}

func TestVerifC11Kill(t *testing.T) { vtMain(t, "C11", vtC11KillGen, vtC11KillExec) }
