//go:build verif

package loadaware

import (
	"context"
	"fmt"
	"io"
	"math/rand"
	"testing"
	"time"

	gocache "github.com/patrickmn/go-cache"
	corev1 "k8s.io/api/core/v1"
	apierrors "k8s.io/apimachinery/pkg/api/errors"
	"k8s.io/apimachinery/pkg/api/resource"
	metav1 "k8s.io/apimachinery/pkg/apis/meta/v1"
	"k8s.io/apimachinery/pkg/labels"
	"k8s.io/apimachinery/pkg/runtime/schema"
	"k8s.io/klog/v2"

	"github.com/koordinator-sh/koordinator/apis/extension"
	slov1alpha1 "github.com/koordinator-sh/koordinator/apis/slo/v1alpha1"
	koordclientset "github.com/koordinator-sh/koordinator/pkg/client/clientset/versioned"
	koordfake "github.com/koordinator-sh/koordinator/pkg/client/clientset/versioned/fake"
	deschedulerconfig "github.com/koordinator-sh/koordinator/pkg/descheduler/apis/config"
	"github.com/koordinator-sh/koordinator/pkg/descheduler/framework"
	"github.com/koordinator-sh/koordinator/pkg/descheduler/utils/anomaly"
)

// Wire format: see coq/C18/Extract.v.

const (
	vtC18AnnEvictable = "verif/evictable"
	vtC18AnnEvictOK   = "verif/evict-ok"
	vtC18AnnID        = "verif/id"
)

// recording evictor: Filter / Evict answer what the input says, every Evict call is logged
type vtC18Evictor struct {
	calls *[]int64
	node  map[string]int64
}

func (e *vtC18Evictor) Filter(pod *corev1.Pod) bool { return pod.Annotations[vtC18AnnEvictable] == "1" }
func (e *vtC18Evictor) PreEvictionFilter(pod *corev1.Pod) bool { return true }
func (e *vtC18Evictor) Evict(ctx context.Context, pod *corev1.Pod, opts framework.EvictOptions) bool {
	var id int64
	fmt.Sscanf(pod.Annotations[vtC18AnnID], "%d", &id)
	*e.calls = append(*e.calls, e.node[pod.Spec.NodeName], vtC18NsIdx[pod.Namespace], id)
	return pod.Annotations[vtC18AnnEvictOK] == "1"
}

type vtC18Handle struct {
	framework.Handle
	koordclientset.Interface
	evictor *vtC18Evictor
	pods    map[string][]*corev1.Pod
}

func (h *vtC18Handle) Evictor() framework.Evictor { return h.evictor }
func (h *vtC18Handle) GetPodsAssignedToNodeFunc() framework.GetPodsAssignedToNodeFunc {
	return func(nodeName string, filter framework.FilterFunc) ([]*corev1.Pod, error) {
		var out []*corev1.Pod
		for _, p := range h.pods[nodeName] {
			if filter == nil || filter(p) {
				out = append(out, p)
			}
		}
		return out, nil
	}
}

type vtC18Lister struct {
	m map[string]*slov1alpha1.NodeMetric
}

func (l *vtC18Lister) List(selector labels.Selector) ([]*slov1alpha1.NodeMetric, error) {
	return nil, nil
}
func (l *vtC18Lister) Get(name string) (*slov1alpha1.NodeMetric, error) {
	if nm, ok := l.m[name]; ok {
		return nm, nil
	}
	return nil, apierrors.NewNotFound(schema.GroupResource{Group: "slo.koordinator.sh", Resource: "nodemetrics"}, name)
}

// namespaces: 0,1 evictable, 2,3 on the EvictableNamespaces.Exclude list
var vtC18Ns = []string{"ns-a", "ns-b", "excl-a", "excl-b"}
var vtC18NsIdx = map[string]int64{"ns-a": 0, "ns-b": 1, "excl-a": 2, "excl-b": 3}

var vtC18Dims = []corev1.ResourceName{corev1.ResourceCPU, corev1.ResourceMemory, corev1.ResourcePods}

func vtC18DetCode(c *gocache.Cache, name string) int64 {
	obj, ok := c.Get(name)
	if !ok {
		return -1
	}
	d := obj.(*anomaly.BasicDetector)
	st := d.State()
	cnt := d.Counter()
	var s int64
	if st == anomaly.StateAnomaly {
		s = 1
	}
	return s*1000000 + int64(cnt.ConsecutiveAbnormalities)*1000 + int64(cnt.ConsecutiveNormalities)
}

func vtC18Exec(in []int64) []int64 {
	pos := 0
	next := func() int64 { v := in[pos]; pos++; return v }
	numberOfNodes, dry, fit, sel, dev, anom, k, kn := next(), next(), next(), next(), next(), next(), next(), next()
	var low, high, plow, phigh deschedulerconfig.ResourceThresholds
	for d := 0; d < 3; d++ {
		l, h, pl, ph := next(), next(), next(), next()
		if l != -1 {
			if low == nil {
				low, high = deschedulerconfig.ResourceThresholds{}, deschedulerconfig.ResourceThresholds{}
			}
			low[vtC18Dims[d]], high[vtC18Dims[d]] = deschedulerconfig.Percentage(l), deschedulerconfig.Percentage(h)
		}
		if pl != -1 {
			if plow == nil {
				plow, phigh = deschedulerconfig.ResourceThresholds{}, deschedulerconfig.ResourceThresholds{}
			}
			plow[vtC18Dims[d]], phigh[vtC18Dims[d]] = deschedulerconfig.Percentage(pl), deschedulerconfig.Percentage(ph)
		}
	}
	weights := map[corev1.ResourceName]int64{}
	for d := 0; d < 3; d++ {
		weights[vtC18Dims[d]] = next()
	}
	n := int(next())
	type nstat struct {
		capc, capm, capp int64
		member           bool
	}
	ns := make([]nstat, n)
	nodeIdx := map[string]int64{}
	for i := range ns {
		ns[i] = nstat{next(), next(), next(), next() != 0}
		nodeIdx[fmt.Sprintf("n%02d", i+1)] = int64(i + 1)
	}

	pool := deschedulerconfig.LowNodeLoadNodePool{
		Name:                   "pool",
		UseDeviationThresholds: dev != 0,
		LowThresholds:          low,
		HighThresholds:         high,
		ProdLowThresholds:      plow,
		ProdHighThresholds:     phigh,
		ResourceWeights:        weights,
	}
	if sel != 0 {
		pool.NodeSelector = &metav1.LabelSelector{MatchLabels: map[string]string{"verif/pool": "a"}}
	}
	if anom != 0 {
		pool.AnomalyCondition = &deschedulerconfig.LoadAnomalyCondition{
			Timeout:                  metav1.Duration{Duration: time.Hour},
			ConsecutiveAbnormalities: uint32(k),
			ConsecutiveNormalities:   uint32(kn),
		}
	}
	expiration := int64(180)
	args := &deschedulerconfig.LowNodeLoadArgs{
		NumberOfNodes:               int32(numberOfNodes),
		DryRun:                      dry != 0,
		NodeFit:                     fit != 0,
		NodeMetricExpirationSeconds: &expiration,
		EvictableNamespaces:         &deschedulerconfig.Namespaces{Exclude: []string{"excl-a", "excl-b"}},
		PodSelectors: []deschedulerconfig.LowNodeLoadPodSelector{
			{Name: "sel", Selector: &metav1.LabelSelector{MatchLabels: map[string]string{"verif/sel": "1"}}},
		},
		DetectorCacheTimeout: &metav1.Duration{Duration: time.Hour},
		NodePools:            []deschedulerconfig.LowNodeLoadNodePool{pool},
	}

	var calls []int64
	handle := &vtC18Handle{
		Interface: koordfake.NewSimpleClientset(),
		evictor:   &vtC18Evictor{calls: &calls, node: nodeIdx},
	}
	// the informers of the constructor are not used: an already cancelled context makes
	// Start/WaitForCacheSync return at once, the lister is replaced below
	ctx, cancel := context.WithCancel(context.Background())
	cancel()
	plugin, err := NewLowNodeLoad(ctx, args, handle)
	if err != nil {
		return []int64{-888888}
	}
	pl := plugin.(*LowNodeLoad)
	lister := &vtC18Lister{}
	pl.nodeMetricLister = lister

	rounds := int(next())
	obs := []int64{}
	now := time.Now()
	for r := 0; r < rounds; r++ {
		nodes := make([]*corev1.Node, n)
		handle.pods = map[string][]*corev1.Pod{}
		lister.m = map[string]*slov1alpha1.NodeMetric{}
		for i := 0; i < n; i++ {
			name := fmt.Sprintf("n%02d", i+1)
			unsched, fresh, sysc, sysm, np := next(), next(), next(), next(), int(next())
			node := &corev1.Node{
				ObjectMeta: metav1.ObjectMeta{Name: name, Labels: map[string]string{}},
				Spec:       corev1.NodeSpec{Unschedulable: unsched != 0},
				Status: corev1.NodeStatus{Allocatable: corev1.ResourceList{
					corev1.ResourceCPU:    *resource.NewMilliQuantity(ns[i].capc, resource.DecimalSI),
					corev1.ResourceMemory: *resource.NewQuantity(ns[i].capm, resource.BinarySI),
					corev1.ResourcePods:   *resource.NewQuantity(ns[i].capp, resource.DecimalSI),
				}},
			}
			if ns[i].member {
				node.Labels["verif/pool"] = "a"
			}
			nodes[i] = node
			nm := &slov1alpha1.NodeMetric{
				ObjectMeta: metav1.ObjectMeta{Name: name},
				Status: slov1alpha1.NodeMetricStatus{
					UpdateTime: &metav1.Time{Time: now},
					NodeMetric: &slov1alpha1.NodeMetricInfo{
						SystemUsage: slov1alpha1.ResourceMap{ResourceList: corev1.ResourceList{
							corev1.ResourceCPU:    *resource.NewMilliQuantity(sysc, resource.DecimalSI),
							corev1.ResourceMemory: *resource.NewQuantity(sysm, resource.BinarySI),
						}},
					},
				},
			}
			for j := 0; j < np; j++ {
				id, nsi, prio, met, cpu, mem, filt, evok := next(), next(), next(), next(), next(), next(), next(), next()
				prio32 := int32(prio)
				pod := &corev1.Pod{
					ObjectMeta: metav1.ObjectMeta{
						Name:      fmt.Sprintf("p%04d", id),
						Namespace: vtC18Ns[nsi&3],
						Labels:    map[string]string{},
						Annotations: map[string]string{
							vtC18AnnID:        fmt.Sprintf("%d", id),
							vtC18AnnEvictable: fmt.Sprintf("%d", filt&1),
							vtC18AnnEvictOK:   fmt.Sprintf("%d", evok),
						},
					},
					Spec:   corev1.PodSpec{NodeName: name, Priority: &prio32},
					Status: corev1.PodStatus{Phase: corev1.PodRunning},
				}
				if filt&2 != 0 {
					pod.Labels["verif/sel"] = "1"
				}
				handle.pods[name] = append(handle.pods[name], pod)
				if met != 0 {
					nm.Status.PodsMetric = append(nm.Status.PodsMetric, &slov1alpha1.PodMetricInfo{
						Name: pod.Name, Namespace: pod.Namespace,
						PodUsage: slov1alpha1.ResourceMap{ResourceList: corev1.ResourceList{
							corev1.ResourceCPU:    *resource.NewMilliQuantity(cpu, resource.DecimalSI),
							corev1.ResourceMemory: *resource.NewQuantity(mem, resource.BinarySI),
						}},
					})
				}
			}
			switch fresh {
			case 1:
				lister.m[name] = nm
			case 2: // expired
				nm.Status.UpdateTime = &metav1.Time{Time: now.Add(-time.Hour)}
				lister.m[name] = nm
			case 3: // nothing reported yet
				nm.Status.NodeMetric = nil
				lister.m[name] = nm
			case 4: // no update time
				nm.Status.UpdateTime = nil
				lister.m[name] = nm
			default: // no NodeMetric object
			}
		}
		calls = calls[:0]
		pl.Balance(context.Background(), nodes)
		obs = append(obs, int64(len(calls)/3))
		obs = append(obs, calls...)
		for i := 0; i < n; i++ {
			name := fmt.Sprintf("n%02d", i+1)
			obs = append(obs, vtC18DetCode(pl.nodeAnomalyDetectors, name), vtC18DetCode(pl.prodAnomalyDetectors, name))
		}
	}
	return obs
}

// ---------------------------------------------------------------------------------------
// generator

type vtC18Pod struct{ id, ns, prio, met, cpu, mem, filt, evok int64 }

func vtC18Score(u, cap [3]int64, w [3]int64, cpuActive bool) int64 {
	var s, ws int64
	for d := 0; d < 3; d++ {
		if d == 0 && !cpuActive {
			continue
		}
		var sc int64
		if cap[d] != 0 {
			req := u[d]
			if req > cap[d] {
				req = cap[d]
			}
			sc = req * 1000 / cap[d]
		}
		s += sc * w[d]
		ws += w[d]
	}
	if ws == 0 {
		return 0
	}
	return s / ws
}

func vtC18Gen(r *rand.Rand, i int) (string, []int64) {
	style := []string{"abs", "abs", "abs", "dev", "dev", "anom", "anom", "anom", "degenerate"}[r.Intn(9)]
	dev := style == "dev" || (style != "abs" && r.Intn(3) == 0)
	anom := style == "anom" || r.Intn(4) == 0
	n := 2 + r.Intn(5)
	if style == "degenerate" {
		n = r.Intn(4)
	}
	cpuActive := r.Intn(7) != 0
	podsActive := r.Intn(5) == 0
	pct := func(lo, hi int) int64 { return int64(lo + r.Intn(hi-lo+1)) }
	var thr [3][4]int64
	for d := 0; d < 3; d++ {
		thr[d] = [4]int64{-1, -1, -1, -1}
		act := d == 1 || (d == 0 && cpuActive) || (d == 2 && podsActive)
		if !act {
			continue
		}
		havePair := d != 1 || r.Intn(6) != 0
		haveProd := r.Intn(2) == 0
		if !havePair && !haveProd && d != 1 {
			havePair = true
		}
		var l, h int64 = 100, 100
		if dev {
			l, h = 0, 0
		}
		if havePair {
			if dev {
				l = pct(0, 25)
				if r.Intn(6) == 0 {
					l = 0
				}
				h = l + pct(0, 20)
			} else {
				l = pct(15, 50)
				h = l + pct(0, 45)
				if h > 100 {
					h = 100
				}
				if style == "degenerate" && r.Intn(3) == 0 {
					h = l
				}
			}
			thr[d][0], thr[d][1] = l, h
		}
		if haveProd {
			var pl, ph int64
			if dev {
				ph = pct(0, 30)
				pl = pct(0, int(ph))
				if havePair && ph > h {
					ph = h
					if pl > ph {
						pl = ph
					}
				}
			} else {
				ph = pct(10, 60)
				if havePair && ph > h {
					ph = h
				}
				pl = pct(0, int(ph))
			}
			thr[d][2], thr[d][3] = pl, ph
		}
	}
	var w [3]int64
	w[0], w[1] = int64(r.Intn(4)), int64(r.Intn(4))
	if r.Intn(4) == 0 {
		w[2] = int64(r.Intn(3))
	}
	if w[0] == 0 && w[1] == 0 {
		w[1] = 1
	}
	var numberOfNodes int64
	if r.Intn(6) == 0 {
		numberOfNodes = int64(r.Intn(3))
	}
	dry := vtB(r.Intn(25) == 0)
	sel := vtB(r.Intn(3) == 0)
	k, kn := int64(0), int64(0)
	if anom {
		k, kn = int64(1+r.Intn(3)), int64(1+r.Intn(2))
	}
	// NodeFit reserves capacity on the first fitting target in map-iteration order: only
	// generated where at most one node can be a target (two nodes, or one schedulable node)
	fit := vtB(r.Intn(4) == 0)
	only := -1
	if fit != 0 {
		if r.Intn(2) == 0 {
			n = 2
		} else if n > 0 {
			only = r.Intn(n)
		}
	}
	in := []int64{numberOfNodes, dry, fit, sel, vtB(dev), vtB(anom), k, kn}
	for d := 0; d < 3; d++ {
		in = append(in, thr[d][:]...)
	}
	in = append(in, w[:]...)
	in = append(in, int64(n))
	caps := make([][3]int64, n)
	for j := 0; j < n; j++ {
		capc := int64(4000) << uint(r.Intn(5))
		capm := int64(1) << uint(33+r.Intn(4))
		capp := []int64{64, 128}[r.Intn(2)]
		if !dev && r.Intn(3) == 0 {
			capc = 1000 * int64(1+r.Intn(96))
			capm = int64(1<<30) * int64(1+r.Intn(200))
			if r.Intn(3) == 0 {
				capm += r.Int63n(1 << 30)
			}
			capp = []int64{110, 30, 250}[r.Intn(3)]
		}
		if style == "degenerate" {
			if r.Intn(4) == 0 {
				capc = 0
			}
			if r.Intn(6) == 0 {
				capm = 0
			}
			if r.Intn(5) == 0 {
				capp = 0
			}
		}
		caps[j] = [3]int64{capc, capm, capp}
		member := int64(1)
		if sel != 0 && r.Intn(4) == 0 {
			member = 0
		}
		in = append(in, capc, capm, capp, member)
	}
	rounds := 1 + r.Intn(4)
	if anom {
		rounds = 3 + r.Intn(5)
	}
	in = append(in, int64(rounds))
	// persistent load level per node: 0 low, 1 middle, 2 high, 3 high because of prod pods
	level := make([]int, n)
	for j := range level {
		level[j] = []int{0, 0, 1, 2, 2, 3}[r.Intn(6)]
	}
	podID := int64(0)
	for rd := 0; rd < rounds; rd++ {
		for try := 0; ; try++ {
			var enc []int64
			scores := map[int64]bool{}
			pscores := map[int64]bool{}
			ok := true
			savedID := podID
			for j := 0; j < n; j++ {
				if r.Intn(5) == 0 {
					level[j] = r.Intn(4)
				}
				unsched := vtB(r.Intn(12) == 0)
				if only >= 0 {
					unsched = vtB(j != only)
				}
				fresh := int64(1)
				if r.Intn(12) == 0 || try > 40 {
					fresh = []int64{0, 2, 3, 4}[r.Intn(4)]
				}
				unitc, unitm := int64(1), int64(1)
				if dev {
					unitc, unitm = 125, caps[j][1]>>10
					if unitm == 0 {
						unitm = 1
					}
				}
				frac := func() float64 {
					switch level[j] {
					case 0:
						return 0.02 + 0.25*r.Float64()
					case 1:
						return 0.3 + 0.3*r.Float64()
					default:
						return 0.6 + 0.38*r.Float64()
					}
				}
				np := r.Intn(7)
				if level[j] >= 2 && np == 0 {
					np = 1 + r.Intn(4)
				}
				totc := int64(frac() * float64(caps[j][0]))
				totm := int64(frac() * float64(caps[j][1]))
				if style == "degenerate" && r.Intn(4) == 0 {
					totc, totm = 0, 0
				}
				sysShare := 0.05 + 0.3*r.Float64()
				sysc := int64(float64(totc)*sysShare) / unitc * unitc
				sysm := int64(float64(totm)*sysShare) / unitm * unitm
				prios := r.Perm(40)
				pods := make([]vtC18Pod, np)
				var u, pu [3]int64
				u[0], u[1], u[2] = sysc, sysm, int64(np)
				// StatefulSet-style twins: the same pod name in two namespaces (tenants) on one node,
				// one of prod priority and one not
				twins := r.Intn(3) == 0
				for q := 0; q < np; q++ {
					band := []int64{9000, 9000, 7000, 5000, 5000, 3000, 0}[r.Intn(7)]
					if level[j] == 3 && r.Intn(3) != 0 {
						band = 9000
					}
					twin := twins && q%2 == 1
					if twin {
						if pods[q-1].prio >= 9000 {
							band = []int64{7000, 5000, 5000, 3000, 0}[r.Intn(5)]
						} else {
							band = 9000
						}
					}
					p := vtC18Pod{id: podID + 1, prio: band + int64(prios[q])}
					if twin {
						p.id = pods[q-1].id
					} else {
						podID++
					}
					p.met = vtB(r.Intn(10) != 0)
					p.cpu = int64(float64(totc-sysc)/float64(np)*(0.4+1.2*r.Float64())) / unitc * unitc
					p.mem = int64(float64(totm-sysm)/float64(np)*(0.4+1.2*r.Float64())) / unitm * unitm
					if r.Intn(15) == 0 {
						p.cpu = 0
					}
					p.filt = 3
					p.ns = int64(r.Intn(2))
					if r.Intn(5) == 0 {
						p.filt = int64(r.Intn(3))
					}
					if r.Intn(12) == 0 {
						p.ns = 2 + int64(r.Intn(2))
					}
					if twin {
						p.ns = pods[q-1].ns ^ 1
					}
					p.evok = vtB(r.Intn(10) != 0)
					pods[q] = p
					if p.met != 0 {
						u[0] += p.cpu
						u[1] += p.mem
					}
					if p.prio >= int64(extension.PriorityProdValueMin) && p.prio <= int64(extension.PriorityProdValueMax) {
						pu[2]++
						if p.met != 0 {
							pu[0] += p.cpu
							pu[1] += p.mem
						}
					}
				}
				if !dev && r.Intn(8) == 0 {
					// usage exactly at / one above a memory threshold
					pc := []int64{thr[1][0], thr[1][1]}[r.Intn(2)]
					if pc == -1 {
						pc = 100
					}
					target := int64(float64(pc)*0.01*float64(caps[j][1])) + int64(r.Intn(2))
					if ns := sysm + target - u[1]; ns >= 0 {
						u[1] += ns - sysm
						sysm = ns
					}
				}
				if fresh == 1 {
					if u[0] != 0 || u[1] != 0 || u[2] != 0 {
						s := vtC18Score(u, caps[j], w, cpuActive)
						if scores[s] {
							ok = false
						}
						scores[s] = true
					}
					if pu[0] != 0 || pu[1] != 0 || pu[2] != 0 {
						s := vtC18Score(pu, caps[j], w, cpuActive)
						if pscores[s] {
							ok = false
						}
						pscores[s] = true
					}
				}
				enc = append(enc, unsched, fresh, sysc, sysm, int64(np))
				for _, p := range pods {
					enc = append(enc, p.id, p.ns, p.prio, p.met, p.cpu, p.mem, p.filt, p.evok)
				}
			}
			if ok {
				in = append(in, enc...)
				break
			}
			podID = savedID
		}
	}
	label := style
	if fit != 0 {
		label += "+fit"
	}
	if dev {
		label += "+dev"
	}
	if anom {
		label += fmt.Sprintf("+k%d", k)
	}
	return label, in
}

func TestVerifC18(t *testing.T) {
	klog.LogToStderr(false)
	klog.SetOutput(io.Discard)
	vtMain(t, "C18", vtC18Gen, vtC18Exec)
}
