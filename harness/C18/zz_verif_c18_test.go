//go:build verif

package loadaware

import (
	"context"
	"fmt"
	"io"
	"math/rand"
	"os"
	"testing"
	"time"

	gocache "github.com/patrickmn/go-cache"
	corev1 "k8s.io/api/core/v1"
	apierrors "k8s.io/apimachinery/pkg/api/errors"
	"k8s.io/apimachinery/pkg/api/resource"
	metav1 "k8s.io/apimachinery/pkg/apis/meta/v1"
	"k8s.io/apimachinery/pkg/labels"
	"k8s.io/apimachinery/pkg/runtime/schema"
	"k8s.io/klog/v2"

	"github.com/koordinator-sh/koordinator/apis/extension"
	slov1alpha1 "github.com/koordinator-sh/koordinator/apis/slo/v1alpha1"
	koordclientset "github.com/koordinator-sh/koordinator/pkg/client/clientset/versioned"
	koordfake "github.com/koordinator-sh/koordinator/pkg/client/clientset/versioned/fake"
	deschedulerconfig "github.com/koordinator-sh/koordinator/pkg/descheduler/apis/config"
	"github.com/koordinator-sh/koordinator/pkg/descheduler/framework"
	"github.com/koordinator-sh/koordinator/pkg/descheduler/utils/anomaly"
)

// Wire format: see coq/C18/Extract.v.

const (
	vtC18AnnEvictable = "verif/evictable"
	vtC18AnnEvictOK   = "verif/evict-ok"
	vtC18AnnID        = "verif/id"
)

// recording evictor: Filter / Evict answer what the input says, every Evict call is logged
type vtC18Evictor struct {
	calls *[]int64
	node  map[string]int64
}

func (e *vtC18Evictor) Filter(pod *corev1.Pod) bool            { return pod.Annotations[vtC18AnnEvictable] == "1" }
func (e *vtC18Evictor) PreEvictionFilter(pod *corev1.Pod) bool { return true }
func (e *vtC18Evictor) Evict(ctx context.Context, pod *corev1.Pod, opts framework.EvictOptions) bool {
	var id int64
	fmt.Sscanf(pod.Annotations[vtC18AnnID], "%d", &id)
	*e.calls = append(*e.calls, e.node[pod.Spec.NodeName], vtC18NsIdx[pod.Namespace], id)
	return pod.Annotations[vtC18AnnEvictOK] == "1"
}

type vtC18Handle struct {
	framework.Handle
	koordclientset.Interface
	evictor *vtC18Evictor
	pods    map[string][]*corev1.Pod
}

func (h *vtC18Handle) Evictor() framework.Evictor { return h.evictor }
func (h *vtC18Handle) GetPodsAssignedToNodeFunc() framework.GetPodsAssignedToNodeFunc {
	return func(nodeName string, filter framework.FilterFunc) ([]*corev1.Pod, error) {
		var out []*corev1.Pod
		for _, p := range h.pods[nodeName] {
			if filter == nil || filter(p) {
				out = append(out, p)
			}
		}
		return out, nil
	}
}

type vtC18Lister struct {
	m map[string]*slov1alpha1.NodeMetric
}

func (l *vtC18Lister) List(selector labels.Selector) ([]*slov1alpha1.NodeMetric, error) {
	return nil, nil
}
func (l *vtC18Lister) Get(name string) (*slov1alpha1.NodeMetric, error) {
	if nm, ok := l.m[name]; ok {
		return nm, nil
	}
	return nil, apierrors.NewNotFound(schema.GroupResource{Group: "slo.koordinator.sh", Resource: "nodemetrics"}, name)
}

// namespaces: 0,1 evictable, 2,3 on the EvictableNamespaces.Exclude list
var vtC18Ns = []string{"ns-a", "ns-b", "excl-a", "excl-b"}
var vtC18NsIdx = map[string]int64{"ns-a": 0, "ns-b": 1, "excl-a": 2, "excl-b": 3}

var vtC18Dims = []corev1.ResourceName{corev1.ResourceCPU, corev1.ResourceMemory, corev1.ResourcePods}

func vtC18DetCode(c *gocache.Cache, name string) int64 {
	obj, ok := c.Get(name)
	if !ok {
		return -1
	}
	d := obj.(*anomaly.BasicDetector)
	st := d.State()
	cnt := d.Counter()
	var s int64
	if st == anomaly.StateAnomaly {
		s = 1
	}
	return s*1000000 + int64(cnt.ConsecutiveAbnormalities)*1000 + int64(cnt.ConsecutiveNormalities)
}

const vtC18PoolLabel = "verif/pool"

// the NodeSelector spellings of the wire format (coq/C18/Extract.v)
func vtC18Selector(kind int64) *metav1.LabelSelector {
	req := func(op metav1.LabelSelectorOperator, vals ...string) *metav1.LabelSelector {
		return &metav1.LabelSelector{MatchExpressions: []metav1.LabelSelectorRequirement{{Key: vtC18PoolLabel, Operator: op, Values: vals}}}
	}
	switch kind {
	case 0:
		return nil
	case 1:
		return &metav1.LabelSelector{}
	case 2:
		return &metav1.LabelSelector{MatchLabels: map[string]string{vtC18PoolLabel: "a"}}
	case 3:
		return &metav1.LabelSelector{MatchLabels: map[string]string{vtC18PoolLabel: "b"}}
	case 4:
		return req(metav1.LabelSelectorOpExists)
	case 5:
		return req(metav1.LabelSelectorOpIn, "a")
	case 6:
		return req(metav1.LabelSelectorOpIn, "a", "b")
	case 7:
		return req(metav1.LabelSelectorOpNotIn, "a")
	case 8:
		return req(metav1.LabelSelectorOpDoesNotExist)
	case 9:
		return &metav1.LabelSelector{MatchLabels: map[string]string{}, MatchExpressions: []metav1.LabelSelectorRequirement{}}
	}
	// not generated: a selector that matches nothing
	return req(metav1.LabelSelectorOpIn, "none")
}

func vtC18SelMatch(kind, label int64) bool {
	switch kind {
	case 0, 1, 9:
		return true
	case 2, 5:
		return label == 1
	case 3:
		return label == 2
	case 4, 6:
		return label != 0
	case 7:
		return label != 1
	case 8:
		return label == 0
	}
	return false
}

func vtC18Exec(in []int64) []int64 {
	pos := 0
	next := func() int64 { v := in[pos]; pos++; return v }
	numberOfNodes, dry, fit, paused := next(), next(), next(), next()
	npools := int(next())
	pools := make([]deschedulerconfig.LowNodeLoadNodePool, npools)
	for pi := 0; pi < npools; pi++ {
		sel, dev, anom, k, kn := next(), next(), next(), next(), next()
		var low, high, plow, phigh deschedulerconfig.ResourceThresholds
		for d := 0; d < 3; d++ {
			l, h, pl, ph := next(), next(), next(), next()
			if l != -1 {
				if low == nil {
					low, high = deschedulerconfig.ResourceThresholds{}, deschedulerconfig.ResourceThresholds{}
				}
				low[vtC18Dims[d]], high[vtC18Dims[d]] = deschedulerconfig.Percentage(l), deschedulerconfig.Percentage(h)
			}
			if pl != -1 {
				if plow == nil {
					plow, phigh = deschedulerconfig.ResourceThresholds{}, deschedulerconfig.ResourceThresholds{}
				}
				plow[vtC18Dims[d]], phigh[vtC18Dims[d]] = deschedulerconfig.Percentage(pl), deschedulerconfig.Percentage(ph)
			}
		}
		weights := map[corev1.ResourceName]int64{}
		for d := 0; d < 3; d++ {
			weights[vtC18Dims[d]] = next()
		}
		pool := deschedulerconfig.LowNodeLoadNodePool{
			Name:                   fmt.Sprintf("pool%d", pi),
			UseDeviationThresholds: dev != 0,
			LowThresholds:          low,
			HighThresholds:         high,
			ProdLowThresholds:      plow,
			ProdHighThresholds:     phigh,
			ResourceWeights:        weights,
			NodeSelector:           vtC18Selector(sel),
		}
		if anom != 0 {
			pool.AnomalyCondition = &deschedulerconfig.LoadAnomalyCondition{
				Timeout:                  metav1.Duration{Duration: time.Hour},
				ConsecutiveAbnormalities: uint32(k),
				ConsecutiveNormalities:   uint32(kn),
			}
		}
		pools[pi] = pool
	}
	n := int(next())
	type nstat struct {
		capc, capm, capp       int64
		label                  int64
		rawk, rawc, rawm, rawp int64
	}
	ns := make([]nstat, n)
	nodeIdx := map[string]int64{}
	for i := range ns {
		ns[i] = nstat{next(), next(), next(), next(), next(), next(), next(), next()}
		nodeIdx[fmt.Sprintf("n%02d", i+1)] = int64(i + 1)
	}

	expiration := int64(180)
	args := &deschedulerconfig.LowNodeLoadArgs{
		Paused:                      paused != 0,
		NumberOfNodes:               int32(numberOfNodes),
		DryRun:                      dry != 0,
		NodeFit:                     fit != 0,
		NodeMetricExpirationSeconds: &expiration,
		EvictableNamespaces:         &deschedulerconfig.Namespaces{Exclude: []string{"excl-a", "excl-b"}},
		PodSelectors: []deschedulerconfig.LowNodeLoadPodSelector{
			{Name: "sel", Selector: &metav1.LabelSelector{MatchLabels: map[string]string{"verif/sel": "1"}}},
		},
		DetectorCacheTimeout: &metav1.Duration{Duration: time.Hour},
		NodePools:            pools,
	}

	var calls []int64
	handle := &vtC18Handle{
		Interface: koordfake.NewSimpleClientset(),
		evictor:   &vtC18Evictor{calls: &calls, node: nodeIdx},
	}
	// the informers of the constructor are not used: an already cancelled context makes
	// Start/WaitForCacheSync return at once, the lister is replaced below
	ctx, cancel := context.WithCancel(context.Background())
	cancel()
	plugin, err := NewLowNodeLoad(ctx, args, handle)
	if err != nil {
		return []int64{-888888}
	}
	pl := plugin.(*LowNodeLoad)
	lister := &vtC18Lister{}
	pl.nodeMetricLister = lister

	rounds := int(next())
	obs := []int64{}
	now := time.Now()
	for r := 0; r < rounds; r++ {
		nodes := make([]*corev1.Node, n)
		handle.pods = map[string][]*corev1.Pod{}
		lister.m = map[string]*slov1alpha1.NodeMetric{}
		for i := 0; i < n; i++ {
			name := fmt.Sprintf("n%02d", i+1)
			unsched, fresh, sysc, sysm, np := next(), next(), next(), next(), int(next())
			node := &corev1.Node{
				ObjectMeta: metav1.ObjectMeta{Name: name, Labels: map[string]string{}},
				Spec:       corev1.NodeSpec{Unschedulable: unsched != 0},
				Status: corev1.NodeStatus{Allocatable: corev1.ResourceList{
					corev1.ResourceCPU:    *resource.NewMilliQuantity(ns[i].capc, resource.DecimalSI),
					corev1.ResourceMemory: *resource.NewQuantity(ns[i].capm, resource.BinarySI),
					corev1.ResourcePods:   *resource.NewQuantity(ns[i].capp, resource.DecimalSI),
				}},
			}
			switch ns[i].label {
			case 1:
				node.Labels[vtC18PoolLabel] = "a"
			case 2:
				node.Labels[vtC18PoolLabel] = "b"
			}
			// resource amplification: the raw allocatable is recorded in an annotation
			switch ns[i].rawk {
			case 1:
				extension.SetNodeRawAllocatable(node, corev1.ResourceList{
					corev1.ResourceCPU:    *resource.NewMilliQuantity(ns[i].rawc, resource.DecimalSI),
					corev1.ResourceMemory: *resource.NewQuantity(ns[i].rawm, resource.BinarySI),
					corev1.ResourcePods:   *resource.NewQuantity(ns[i].rawp, resource.DecimalSI),
				})
			case 2:
				extension.SetNodeRawAllocatable(node, corev1.ResourceList{
					corev1.ResourceCPU: *resource.NewMilliQuantity(ns[i].rawc, resource.DecimalSI),
				})
			case 3:
				node.Annotations = map[string]string{extension.AnnotationNodeRawAllocatable: "{\"cpu\":"}
			}
			nodes[i] = node
			nm := &slov1alpha1.NodeMetric{
				ObjectMeta: metav1.ObjectMeta{Name: name},
				Status: slov1alpha1.NodeMetricStatus{
					UpdateTime: &metav1.Time{Time: now},
					NodeMetric: &slov1alpha1.NodeMetricInfo{
						SystemUsage: slov1alpha1.ResourceMap{ResourceList: corev1.ResourceList{
							corev1.ResourceCPU:    *resource.NewMilliQuantity(sysc, resource.DecimalSI),
							corev1.ResourceMemory: *resource.NewQuantity(sysm, resource.BinarySI),
						}},
					},
				},
			}
			var own []*slov1alpha1.PodMetricInfo
			for j := 0; j < np; j++ {
				id, nsi, prio, met, cpu, mem, filt, evok := next(), next(), next(), next(), next(), next(), next(), next()
				prio32 := int32(prio)
				pod := &corev1.Pod{
					ObjectMeta: metav1.ObjectMeta{
						Name:      fmt.Sprintf("p%04d", id),
						Namespace: vtC18Ns[nsi&3],
						Labels:    map[string]string{},
						Annotations: map[string]string{
							vtC18AnnID:        fmt.Sprintf("%d", id),
							vtC18AnnEvictable: fmt.Sprintf("%d", filt&1),
							vtC18AnnEvictOK:   fmt.Sprintf("%d", evok),
						},
					},
					Spec:   corev1.PodSpec{NodeName: name, Priority: &prio32},
					Status: corev1.PodStatus{Phase: corev1.PodRunning},
				}
				if filt&2 != 0 {
					pod.Labels["verif/sel"] = "1"
				}
				handle.pods[name] = append(handle.pods[name], pod)
				if met != 0 {
					own = append(own, &slov1alpha1.PodMetricInfo{
						Name: pod.Name, Namespace: pod.Namespace,
						PodUsage: slov1alpha1.ResourceMap{ResourceList: corev1.ResourceList{
							corev1.ResourceCPU:    *resource.NewMilliQuantity(cpu, resource.DecimalSI),
							corev1.ResourceMemory: *resource.NewQuantity(mem, resource.BinarySI),
						}},
					})
				}
			}
			// further podsMetric entries (pods no longer on the node, second entries), listed first
			for nx := int(next()); nx > 0; nx-- {
				nsi, id, cpu, mem := next(), next(), next(), next()
				nm.Status.PodsMetric = append(nm.Status.PodsMetric, &slov1alpha1.PodMetricInfo{
					Name: fmt.Sprintf("p%04d", id), Namespace: vtC18Ns[nsi&3],
					PodUsage: slov1alpha1.ResourceMap{ResourceList: corev1.ResourceList{
						corev1.ResourceCPU:    *resource.NewMilliQuantity(cpu, resource.DecimalSI),
						corev1.ResourceMemory: *resource.NewQuantity(mem, resource.BinarySI),
					}},
				})
			}
			nm.Status.PodsMetric = append(nm.Status.PodsMetric, own...)
			switch fresh {
			case 1:
				lister.m[name] = nm
			case 2: // expired
				nm.Status.UpdateTime = &metav1.Time{Time: now.Add(-time.Hour)}
				lister.m[name] = nm
			case 3: // nothing reported yet
				nm.Status.NodeMetric = nil
				lister.m[name] = nm
			case 4: // no update time
				nm.Status.UpdateTime = nil
				lister.m[name] = nm
			default: // no NodeMetric object
			}
		}
		calls = calls[:0]
		pl.Balance(context.Background(), nodes)
		obs = append(obs, int64(len(calls)/3))
		obs = append(obs, calls...)
		for i := 0; i < n; i++ {
			name := fmt.Sprintf("n%02d", i+1)
			obs = append(obs, vtC18DetCode(pl.nodeAnomalyDetectors, name), vtC18DetCode(pl.prodAnomalyDetectors, name))
		}
	}
	return obs
}

// ---------------------------------------------------------------------------------------
// generator

type vtC18Pod struct{ id, ns, prio, met, cpu, mem, filt, evok int64 }

func vtC18Score(u, cap [3]int64, w [3]int64, cpuActive bool) int64 {
	var s, ws int64
	for d := 0; d < 3; d++ {
		if d == 0 && !cpuActive {
			continue
		}
		var sc int64
		if cap[d] != 0 {
			req := u[d]
			if req > cap[d] {
				req = cap[d]
			}
			sc = req * 1000 / cap[d]
		}
		s += sc * w[d]
		ws += w[d]
	}
	if ws == 0 {
		return 0
	}
	return s / ws
}

// one generated node pool
type vtC18Pool struct {
	sel, dev, anom, k, kn int64
	thr                   [3][4]int64
	w                     [3]int64
	cpuActive             bool
}

// shapes that run into the known findings of C18 (see coq/C18/Extract.v finding_sig 2 and 3, both listed in
// known_findings.txt): a later pool with a nil selector or prod thresholds in overlapping pools (sig 2), the
// anomaly gate in overlapping pools (sig 3). VERIF_C18_FINDINGS=0 keeps them out of the generated scope.
var vtC18KnownFindings = os.Getenv("VERIF_C18_FINDINGS") != "0"

func vtC18GenPool(r *rand.Rand, style string, dev, anom, prodOK bool) vtC18Pool {
	var p vtC18Pool
	p.dev, p.anom = vtB(dev), vtB(anom)
	p.cpuActive = r.Intn(7) != 0
	podsActive := r.Intn(5) == 0
	pct := func(lo, hi int) int64 { return int64(lo + r.Intn(hi-lo+1)) }
	for d := 0; d < 3; d++ {
		p.thr[d] = [4]int64{-1, -1, -1, -1}
		act := d == 1 || (d == 0 && p.cpuActive) || (d == 2 && podsActive)
		if !act {
			continue
		}
		havePair := d != 1 || r.Intn(6) != 0
		haveProd := r.Intn(2) == 0 && prodOK
		if !havePair && !haveProd && d != 1 {
			havePair = true
		}
		var l, h int64 = 100, 100
		if dev {
			l, h = 0, 0
		}
		if havePair {
			if dev {
				l = pct(0, 25)
				if r.Intn(6) == 0 {
					l = 0
				}
				h = l + pct(0, 20)
			} else {
				l = pct(15, 50)
				h = l + pct(0, 45)
				if h > 100 {
					h = 100
				}
				if style == "degenerate" && r.Intn(3) == 0 {
					h = l
				}
			}
			p.thr[d][0], p.thr[d][1] = l, h
		}
		if haveProd {
			var pl, ph int64
			if dev {
				ph = pct(0, 30)
				pl = pct(0, int(ph))
				if havePair && ph > h {
					ph = h
					if pl > ph {
						pl = ph
					}
				}
			} else {
				ph = pct(10, 60)
				if havePair && ph > h {
					ph = h
				}
				pl = pct(0, int(ph))
			}
			p.thr[d][2], p.thr[d][3] = pl, ph
		}
	}
	p.w[0], p.w[1] = int64(r.Intn(4)), int64(r.Intn(4))
	if r.Intn(4) == 0 {
		p.w[2] = int64(r.Intn(3))
	}
	if p.w[0] == 0 && p.w[1] == 0 {
		p.w[1] = 1
	}
	if anom {
		p.k, p.kn = int64(1+r.Intn(3)), int64(1+r.Intn(2))
	}
	return p
}

func vtC18Gen(r *rand.Rand, i int) (string, []int64) {
	style := []string{"abs", "abs", "abs", "dev", "dev", "anom", "anom", "anom", "degenerate"}[r.Intn(9)]
	dev := style == "dev" || (style != "abs" && r.Intn(3) == 0)
	anom := style == "anom" || r.Intn(4) == 0
	n := 2 + r.Intn(5)
	if style == "degenerate" {
		n = r.Intn(4)
	}
	// pool layout: one pool; several pools with pairwise disjoint selectors; several pools that overlap
	// (a specific pool first, a catch-all pool later)
	layout := []string{"single", "single", "single", "single", "single", "disjoint", "disjoint", "overlap", "overlap", "overlap"}[r.Intn(10)]
	var sels []int64
	switch layout {
	case "single":
		if r.Intn(3) == 0 {
			sels = []int64{[]int64{2, 2, 2, 3, 4, 5, 6, 7, 8, 1, 9}[r.Intn(11)]}
		} else {
			sels = []int64{0}
		}
	case "disjoint":
		sels = [][]int64{{2, 3}, {3, 5}, {5, 3, 8}, {8, 2, 3}, {4, 8}, {2, 7}, {7, 5}}[r.Intn(7)]
	default:
		first := []int64{2, 3, 4, 5, 6, 7, 8}[r.Intn(7)]
		if r.Intn(8) == 0 {
			first = 0
		}
		later := []int64{1, 1, 9, 4, 6, 7, 1}
		if vtC18KnownFindings {
			later = []int64{1, 1, 9, 4, 6, 7, 0, 0}
		}
		sels = []int64{first, later[r.Intn(len(later))]}
		if r.Intn(4) == 0 {
			sels = append(sels, later[r.Intn(len(later))])
		}
		if r.Intn(5) == 0 {
			// two specific pools, then the catch-all
			sels = []int64{[]int64{2, 5}[r.Intn(2)], 3, later[r.Intn(len(later))]}
		}
	}
	prodOK := layout != "overlap" || vtC18KnownFindings
	if layout == "overlap" && !vtC18KnownFindings {
		anom = false
		if style == "anom" {
			style = "abs"
		}
	}
	pools := make([]vtC18Pool, len(sels))
	for pi := range pools {
		if pi > 0 && r.Intn(2) == 0 {
			// same thresholds as the first pool: a node relieved there would still look overloaded here
			pools[pi] = pools[0]
			if r.Intn(3) == 0 {
				pools[pi].w = vtC18GenPool(r, style, dev, anom, prodOK).w
			}
		} else {
			pdev, panom := dev, anom
			if pi > 0 {
				if r.Intn(4) == 0 {
					pdev = !pdev
				}
				if r.Intn(3) == 0 && (layout != "overlap" || vtC18KnownFindings) {
					panom = !panom
				}
			}
			pools[pi] = vtC18GenPool(r, style, pdev, panom, prodOK)
		}
		pools[pi].sel = sels[pi]
	}
	devData := false
	anyAnom := false
	for _, p := range pools {
		devData = devData || p.dev != 0
		anyAnom = anyAnom || p.anom != 0
	}
	thr := pools[0].thr
	var numberOfNodes int64
	if r.Intn(6) == 0 {
		numberOfNodes = int64(r.Intn(3))
	}
	dry := vtB(r.Intn(25) == 0)
	// NodeFit reserves capacity on the first fitting target in map-iteration order: only
	// generated where at most one node can be a target (two nodes, or one schedulable node)
	fit := vtB(r.Intn(4) == 0)
	only := -1
	if fit != 0 {
		if r.Intn(2) == 0 {
			n = 2
		} else if n > 0 {
			only = r.Intn(n)
		}
	}
	paused := vtB(r.Intn(40) == 0)
	in := []int64{numberOfNodes, dry, fit, paused, int64(len(pools))}
	for _, p := range pools {
		in = append(in, p.sel, p.dev, p.anom, p.k, p.kn)
		for d := 0; d < 3; d++ {
			in = append(in, p.thr[d][:]...)
		}
		in = append(in, p.w[:]...)
	}
	in = append(in, int64(n))
	caps := make([][3]int64, n)
	labels := make([]int64, n)
	for j := 0; j < n; j++ {
		capc := int64(4000) << uint(r.Intn(5))
		capm := int64(1) << uint(33+r.Intn(4))
		capp := []int64{64, 128}[r.Intn(2)]
		if !devData && r.Intn(3) == 0 {
			capc = 1000 * int64(1+r.Intn(96))
			capm = int64(1<<30) * int64(1+r.Intn(200))
			if r.Intn(3) == 0 {
				capm += r.Int63n(1 << 30)
			}
			capp = []int64{110, 30, 250}[r.Intn(3)]
		}
		if style == "degenerate" {
			if r.Intn(4) == 0 {
				capc = 0
			}
			if r.Intn(6) == 0 {
				capm = 0
			}
			if r.Intn(5) == 0 {
				capp = 0
			}
		}
		caps[j] = [3]int64{capc, capm, capp}
		// labels: mostly such that the first pool's selector matches
		label := int64(r.Intn(3))
		if r.Intn(4) != 0 {
			for l := int64(0); l < 3; l++ {
				if vtC18SelMatch(sels[0], l) && (l != 0 || r.Intn(2) == 0) {
					label = l
					break
				}
			}
		}
		if layout == "disjoint" && r.Intn(3) != 0 {
			label = int64(1 + r.Intn(2))
		}
		labels[j] = label
		// raw-allocatable annotation: [caps] stay the capacities that count; status.allocatable is the amplified figure
		rawk, rawc, rawm, rawp := int64(0), int64(0), int64(0), int64(0)
		switch r.Intn(12) {
		case 0, 1:
			rawk, rawc, rawm, rawp = 1, capc, capm, capp
			capc, capm, capp = capc*2, capm+capm/2, capp*2
		case 2:
			if style == "degenerate" || r.Intn(4) == 0 {
				rawk, rawc = 2, capc
				caps[j] = [3]int64{capc, 0, 0}
				capc = capc * 2
			}
		case 3:
			rawk, rawc, rawm, rawp = 3, capc/2, capm/2, capp/2
		}
		in = append(in, capc, capm, capp, label, rawk, rawc, rawm, rawp)
	}
	rounds := 1 + r.Intn(4)
	if anyAnom {
		rounds = 3 + r.Intn(5)
	}
	in = append(in, int64(rounds))
	// persistent load level per node: 0 low, 1 middle, 2 high, 3 high because of prod pods
	level := make([]int, n)
	for j := range level {
		level[j] = []int{0, 0, 1, 2, 2, 3}[r.Intn(6)]
	}
	podID := int64(0)
	for rd := 0; rd < rounds; rd++ {
		for try := 0; ; try++ {
			var enc []int64
			scores := make([]map[int64]bool, len(pools))
			pscores := make([]map[int64]bool, len(pools))
			for pi := range pools {
				scores[pi], pscores[pi] = map[int64]bool{}, map[int64]bool{}
			}
			ok := true
			savedID := podID
			for j := 0; j < n; j++ {
				if r.Intn(5) == 0 {
					level[j] = r.Intn(4)
				}
				unsched := vtB(r.Intn(12) == 0)
				if only >= 0 {
					unsched = vtB(j != only)
				}
				fresh := int64(1)
				if r.Intn(12) == 0 || try > 40 {
					fresh = []int64{0, 2, 3, 4}[r.Intn(4)]
				}
				unitc, unitm := int64(1), int64(1)
				if devData {
					unitc, unitm = 125, caps[j][1]>>10
					if unitm == 0 {
						unitm = 1
					}
				}
				frac := func() float64 {
					switch level[j] {
					case 0:
						return 0.02 + 0.25*r.Float64()
					case 1:
						return 0.3 + 0.3*r.Float64()
					default:
						return 0.6 + 0.38*r.Float64()
					}
				}
				np := r.Intn(7)
				if level[j] >= 2 && np == 0 {
					np = 1 + r.Intn(4)
				}
				totc := int64(frac() * float64(caps[j][0]))
				totm := int64(frac() * float64(caps[j][1]))
				if style == "degenerate" && r.Intn(4) == 0 {
					totc, totm = 0, 0
				}
				sysShare := 0.05 + 0.3*r.Float64()
				sysc := int64(float64(totc)*sysShare) / unitc * unitc
				sysm := int64(float64(totm)*sysShare) / unitm * unitm
				prios := r.Perm(40)
				pods := make([]vtC18Pod, np)
				var u, pu [3]int64
				u[0], u[1], u[2] = sysc, sysm, int64(np)
				// StatefulSet-style twins: the same pod name in two namespaces (tenants) on one node,
				// one of prod priority and one not
				twins := r.Intn(3) == 0
				for q := 0; q < np; q++ {
					band := []int64{9000, 9000, 7000, 5000, 5000, 3000, 0}[r.Intn(7)]
					if level[j] == 3 && r.Intn(3) != 0 {
						band = 9000
					}
					twin := twins && q%2 == 1
					if twin {
						if pods[q-1].prio >= 9000 {
							band = []int64{7000, 5000, 5000, 3000, 0}[r.Intn(5)]
						} else {
							band = 9000
						}
					}
					p := vtC18Pod{id: podID + 1, prio: band + int64(prios[q])}
					if twin {
						p.id = pods[q-1].id
					} else {
						podID++
					}
					p.met = vtB(r.Intn(10) != 0)
					p.cpu = int64(float64(totc-sysc)/float64(np)*(0.4+1.2*r.Float64())) / unitc * unitc
					p.mem = int64(float64(totm-sysm)/float64(np)*(0.4+1.2*r.Float64())) / unitm * unitm
					if r.Intn(15) == 0 {
						p.cpu = 0
					}
					p.filt = 3
					p.ns = int64(r.Intn(2))
					if r.Intn(5) == 0 {
						p.filt = int64(r.Intn(3))
					}
					if r.Intn(12) == 0 {
						p.ns = 2 + int64(r.Intn(2))
					}
					if twin {
						p.ns = pods[q-1].ns ^ 1
					}
					p.evok = vtB(r.Intn(10) != 0)
					pods[q] = p
					if p.met != 0 {
						u[0] += p.cpu
						u[1] += p.mem
					}
					if p.prio >= int64(extension.PriorityProdValueMin) && p.prio <= int64(extension.PriorityProdValueMax) {
						pu[2]++
						if p.met != 0 {
							pu[0] += p.cpu
							pu[1] += p.mem
						}
					}
				}
				// stale entries of pods that left the node, second entries for a pod that is on it
				var extras []int64
				if r.Intn(5) == 0 {
					for q := 1 + r.Intn(2); q > 0; q-- {
						xc := int64(float64(totc)*0.1*r.Float64()) / unitc * unitc
						xm := int64(float64(totm)*0.1*r.Float64()) / unitm * unitm
						if np > 0 && r.Intn(2) == 0 {
							if p := pods[r.Intn(np)]; p.met != 0 {
								extras = append(extras, p.ns, p.id, xc, xm)
								u[0] += xc
								u[1] += xm
								if p.prio >= int64(extension.PriorityProdValueMin) && p.prio <= int64(extension.PriorityProdValueMax) {
									pu[0] += xc
									pu[1] += xm
								}
								continue
							}
						}
						podID++
						extras = append(extras, int64(r.Intn(4)), podID, xc, xm)
						u[0] += xc
						u[1] += xm
					}
				}
				if !devData && r.Intn(8) == 0 {
					// usage exactly at / one above a memory threshold
					pc := []int64{thr[1][0], thr[1][1]}[r.Intn(2)]
					if pc == -1 {
						pc = 100
					}
					target := int64(float64(pc)*0.01*float64(caps[j][1])) + int64(r.Intn(2))
					if ns := sysm + target - u[1]; ns >= 0 {
						u[1] += ns - sysm
						sysm = ns
					}
				}
				if fresh == 1 {
					// the order of equally scored source nodes is left to sort.Slice: keep the scores of
					// the nodes a pool may look at pairwise distinct, under that pool's weights
					for pi, pool := range pools {
						if !vtC18SelMatch(pool.sel, labels[j]) {
							continue
						}
						if u[0] != 0 || u[1] != 0 || u[2] != 0 {
							s := vtC18Score(u, caps[j], pool.w, pool.cpuActive)
							if scores[pi][s] {
								ok = false
							}
							scores[pi][s] = true
						}
						if pu[0] != 0 || pu[1] != 0 || pu[2] != 0 {
							s := vtC18Score(pu, caps[j], pool.w, pool.cpuActive)
							if pscores[pi][s] {
								ok = false
							}
							pscores[pi][s] = true
						}
					}
				}
				enc = append(enc, unsched, fresh, sysc, sysm, int64(np))
				for _, p := range pods {
					enc = append(enc, p.id, p.ns, p.prio, p.met, p.cpu, p.mem, p.filt, p.evok)
				}
				enc = append(enc, int64(len(extras)/4))
				enc = append(enc, extras...)
			}
			if ok {
				in = append(in, enc...)
				break
			}
			podID = savedID
		}
	}
	label := style
	if layout != "single" {
		label += fmt.Sprintf("+%s%d", layout, len(pools))
	}
	if fit != 0 {
		label += "+fit"
	}
	if devData {
		label += "+dev"
	}
	if anyAnom {
		label += fmt.Sprintf("+k%d", pools[0].k)
	}
	return label, in
}

func TestVerifC18(t *testing.T) {
	klog.LogToStderr(false)
	klog.SetOutput(io.Discard)
	vtMain(t, "C18", vtC18Gen, vtC18Exec)
}
