//go:build verif

package core

import (
	"math/rand"
	"runtime"
	"sync"
	"sync/atomic"
	"testing"
)

// Stream "race": the operations of a generated history run concurrently the way production delivers
// them — the PodGroup informer (PodGroup events), two pod-event sources (the Pod informer and the
// Reservation informer both end in onPodAdd/onPodUpdate/onPodDelete; pod events are split by pod id
// parity, so every object keeps its own event order) and the scheduling goroutine (Permit / Unreserve /
// PostBind / AfterPostFilter), each on its own goroutine.
//
// Two kinds of repetitions per case:
//   full      all events of the (protocol-sanitised) history + a sampler goroutine that keeps taking
//             GetGangSummaries() snapshots; judged on the membership partition
//   monotone  the history without delete events and without PodGroup updates that no PodGroup add
//             precedes (vtC04RaceMono): then what every gang IS at quiescence (exists, declared mode /
//             policy / minimum / group / origin, member set) does not depend on the interleaving
//             (c04_concurrent_informers_confluent) and is projected for prop_case to compare with the
//             declarations recomputed from the history. The goroutines that deliver the first event of a
//             gang meet (bounded spin wait, objects built beforehand) right before they deliver it, so
//             that the first events of a gang really collide.
//
// Observable:  code  then (code = 0 only) two blocks of G x 8 integers
//     exists init strict policy min groupMask fromCrd childrenMask
//   code 0  every snapshot had pending/waiting/bound pairwise disjoint and pending within children, and at
//           quiescence of every repetition every child was in exactly one of the three sets
//        1  a snapshot violated the weak partition      2  a final state violated the partition
//        3  a goroutine panicked
//   block 1 = the gangs at quiescence of the first monotone repetition, block 2 = of the first monotone
//   repetition that differs from it (block 1 again when none does).
// The histories are made protocol conformant first (the hypothesis of c04_partition): no Permit for
// a pod after its PostBind, and informer events carry a node name only for pods that are never
// permitted.

func vtC04RaceSanitize(ops [][6]int64) (events, cycle [][6]int64) {
	permitted := map[int64]bool{}
	for _, o := range ops {
		if o[0] == 7 {
			permitted[o[1]] = true
		}
	}
	bound := map[int64]bool{}
	for _, o := range ops {
		switch o[0] {
		case 1, 2:
			if o[2] != 0 && permitted[o[1]] {
				o[2] = 0
			}
			events = append(events, o)
		case 3, 4, 5, 6:
			events = append(events, o)
		case 7:
			if !bound[o[1]] {
				cycle = append(cycle, o)
			}
		case 9:
			bound[o[1]] = true
			cycle = append(cycle, o)
		case 8, 10:
			cycle = append(cycle, o)
		}
	}
	return
}

// vtC04RaceMono keeps the creating / declaring events only: pod add and update events, PodGroup add
// events, and PodGroup update events of a gang whose PodGroup add event comes earlier (coq: mono_ops).
func vtC04RaceMono(events [][6]int64) [][6]int64 {
	var out [][6]int64
	pgAdded := map[int64]bool{}
	for _, o := range events {
		switch o[0] {
		case 1, 2:
			out = append(out, o)
		case 4:
			pgAdded[o[1]] = true
			out = append(out, o)
		case 5:
			if pgAdded[o[1]] {
				out = append(out, o)
			}
		}
	}
	return out
}

// vtC04RaceThreads: PodGroup events | pod events of even pods | pod events of odd pods
func vtC04RaceThreads(events [][6]int64) [3][][6]int64 {
	var th [3][][6]int64
	for _, o := range events {
		switch o[0] {
		case 4, 5, 6:
			th[0] = append(th[0], o)
		default:
			if o[1]%2 == 0 {
				th[1] = append(th[1], o)
			} else {
				th[2] = append(th[2], o)
			}
		}
	}
	return th
}

// weak partition of one projected gang (12 integers, see observe): masks at 8..11
func vtC04WeakOK(v []int64) bool {
	if v[0] == 0 {
		return true
	}
	c, p, w, b := v[8], v[9], v[10], v[11]
	return p&^c == 0 && p&w == 0 && p&b == 0 && w&b == 0
}

func vtC04FullOK(v []int64) bool {
	if v[0] == 0 {
		return true
	}
	c, p, w, b := v[8], v[9], v[10], v[11]
	return vtC04WeakOK(v) && c&^(p|w|b) == 0
}

// rendezvous of the goroutines that are about to deliver the first event of one gang: a spin wait with a
// bound (the goroutines may meet the gangs in different orders, so nobody waits for ever)
type vtC04Meet struct {
	parties int32
	arrived int32
}

func (m *vtC04Meet) wait() {
	if m.parties < 2 {
		return
	}
	atomic.AddInt32(&m.arrived, 1)
	for i := 0; atomic.LoadInt32(&m.arrived) < m.parties && i < 20000; i++ {
		if i%1024 == 1023 {
			runtime.Gosched()
		}
	}
}

// vtC04FirstTouch: the gang (1..G) whose cache entry this informer event may create, 0 for other operations
func (e *vtC04Env) firstTouch(o [6]int64) int64 {
	switch o[0] {
	case 1:
		if e.hasGang(o[1]) {
			return e.podGang[o[1]]
		}
	case 2:
		if e.hasGang(o[1]) && o[3] == 0 {
			return e.podGang[o[1]]
		}
	case 4:
		if o[1] >= 1 && o[1] <= e.G {
			return o[1]
		}
	}
	return 0
}

// vtC04RaceOnce runs one repetition; mono selects the monotone variant. It returns the partition code
// and (mono only) the declarations of the gangs at quiescence.
func vtC04RaceOnce(in []int64, mono bool) (int64, []int64) {
	e, ops := vtC04NewEnv(in)
	events, cycle := vtC04RaceSanitize(ops)
	if mono {
		events = vtC04RaceMono(events)
	}
	th := vtC04RaceThreads(events)
	seqs := [][][6]int64{th[0], th[1], th[2], cycle}
	// monotone: per gang, the goroutines meet right before their first event of that gang
	meets := make([]*vtC04Meet, e.G+1)
	meetAt := make([]map[int]int64, len(seqs)) // thread -> op index -> gang
	for g := range meets {
		meets[g] = &vtC04Meet{}
	}
	for ti, seq := range seqs {
		meetAt[ti] = map[int]int64{}
		if !mono || ti == 3 {
			continue
		}
		seen := map[int64]bool{}
		for i, o := range seq {
			if g := e.firstTouch(o); g != 0 && !seen[g] {
				seen[g] = true
				meetAt[ti][i] = g
				meets[g].parties++
			}
		}
	}
	var bad int64
	var wg sync.WaitGroup
	start := make(chan struct{})
	done := make(chan struct{})
	runThread := func(ti int, seq [][6]int64) {
		defer wg.Done()
		defer func() {
			if r := recover(); r != nil {
				atomic.StoreInt64(&bad, 3)
			}
		}()
		<-start
		for i, o := range seq {
			func() {
				defer func() {
					if r := recover(); r != nil {
						atomic.StoreInt64(&bad, 3)
					}
				}()
				if g, ok := meetAt[ti][i]; ok {
					if call := e.prepare(o); call != nil {
						meets[g].wait()
						call()
						return
					}
				}
				e.apply(o)
			}()
			runtime.Gosched()
		}
	}
	wg.Add(len(seqs))
	for ti, s := range seqs {
		go runThread(ti, s)
	}
	var swg sync.WaitGroup
	if !mono {
		swg.Add(1)
		go func() {
			defer swg.Done()
			defer func() {
				if r := recover(); r != nil {
					atomic.StoreInt64(&bad, 3)
				}
			}()
			<-start
			buf := make([]int64, 0, 12*int(e.G))
			for {
				select {
				case <-done:
					return
				default:
				}
				buf = e.observe(buf[:0])
				for g := 0; g < int(e.G); g++ {
					if !vtC04WeakOK(buf[12*g : 12*g+12]) {
						atomic.CompareAndSwapInt64(&bad, 0, 1)
					}
				}
				runtime.Gosched()
			}
		}()
	}
	close(start)
	wg.Wait()
	close(done)
	swg.Wait()
	if b := atomic.LoadInt64(&bad); b != 0 {
		return b, nil
	}
	return e.quiescent(mono)
}

// quiescent judges the partition of the final state and (withDecl) projects what every gang is:
// exists init strict policy min groupMask fromCrd childrenMask
func (e *vtC04Env) quiescent(withDecl bool) (int64, []int64) {
	fin := e.observe(nil)
	for g := 0; g < int(e.G); g++ {
		if !vtC04FullOK(fin[12*g : 12*g+12]) {
			return 2, nil
		}
	}
	if !withDecl {
		return 0, nil
	}
	decl := make([]int64, 0, 8*int(e.G))
	for g := 0; g < int(e.G); g++ {
		v := fin[12*g : 12*g+12]
		decl = append(decl, v[0], v[1], v[2], v[3], v[4], v[5], v[6], v[8])
	}
	return 0, decl
}

// vtC04RaceStorm is a cheap monotone repetition aimed at the creation of the cache entries: gang by gang,
// the first event of the gang from each event source (PodGroup informer, even pods, odd pods; objects built
// beforehand) is delivered by its own goroutine at the same instant (pure spin barrier); the remaining
// events and the scheduling-cycle calls then run one after the other. With threads = (source, gang) queues
// this is one interleaving in the sense of c04_concurrent_informers_confluent (every queue keeps its order;
// the events it overtakes are no-ops for that gang).
func vtC04RaceStorm(in []int64) (int64, []int64) {
	e, ops := vtC04NewEnv(in)
	events, cycle := vtC04RaceSanitize(ops)
	events = vtC04RaceMono(events)
	source := func(o [6]int64) int {
		if o[0] == 4 || o[0] == 5 {
			return 0
		}
		return 1 + int(o[1]&1)
	}
	used := make([]bool, len(events))
	var bad int64
	for g := int64(1); g <= e.G; g++ {
		var calls []func()
		var seen [3]bool
		for i, o := range events {
			if !used[i] && e.firstTouch(o) == g && !seen[source(o)] {
				if call := e.prepare(o); call != nil {
					seen[source(o)] = true
					used[i] = true
					calls = append(calls, call)
				}
			}
		}
		var ready int32
		var wg sync.WaitGroup
		for _, call := range calls {
			wg.Add(1)
			go func(call func()) {
				defer wg.Done()
				defer func() {
					if r := recover(); r != nil {
						atomic.StoreInt64(&bad, 3)
					}
				}()
				atomic.AddInt32(&ready, 1)
				for i := 0; atomic.LoadInt32(&ready) < int32(len(calls)) && i < 2000000; i++ {
				}
				call()
			}(call)
		}
		wg.Wait()
	}
	func() {
		defer func() {
			if r := recover(); r != nil {
				atomic.StoreInt64(&bad, 3)
			}
		}()
		for i, o := range events {
			if !used[i] {
				e.apply(o)
			}
		}
		for _, o := range cycle {
			e.apply(o)
		}
	}()
	if b := atomic.LoadInt64(&bad); b != 0 {
		return b, nil
	}
	return e.quiescent(true)
}

func vtC04SameInts(a, b []int64) bool {
	if len(a) != len(b) {
		return false
	}
	for i := range a {
		if a[i] != b[i] {
			return false
		}
	}
	return true
}

func vtC04RaceExec(in []int64) []int64 {
	full, mono, storm := int(vtEnvInt("VERIF_C04_FULL_REPS", 4)), int(vtEnvInt("VERIF_C04_MONO_REPS", 2)), int(vtEnvInt("VERIF_C04_STORM_REPS", 30))
	for rep := 0; rep < full; rep++ {
		if c, _ := vtC04RaceOnce(in, false); c != 0 {
			return []int64{c}
		}
	}
	var first, other []int64
	for rep := 0; rep < mono+storm; rep++ {
		var c int64
		var decl []int64
		if rep < mono {
			c, decl = vtC04RaceOnce(in, true)
		} else {
			c, decl = vtC04RaceStorm(in)
		}
		if c != 0 {
			return []int64{c}
		}
		if first == nil {
			first = decl
		} else if other == nil && !vtC04SameInts(first, decl) {
			other = decl
		}
	}
	if other == nil {
		other = first
	}
	out := []int64{0}
	out = append(out, first...)
	return append(out, other...)
}

// vtC04RaceGen: the history generator, and (one case in three) a "burst" history in which the first
// events of every gang — its PodGroup add event and the add events of one even and one odd member —
// stand at the head of the three informer threads, followed by a generated history.
func vtC04RaceGen(r *rand.Rand, i int) (string, []int64) {
	label, in := vtC04Gen(r, i)
	if r.Intn(3) != 0 {
		return label, in
	}
	e, ops := vtC04NewEnv(in)
	var head [][6]int64
	for g := int64(1); g <= e.G; g++ {
		c := e.acfg[g]
		if r.Intn(4) != 0 {
			head = append(head, [6]int64{4, g, c.min, c.mode, c.policy, c.mask})
		}
		seen := [2]bool{}
		for p := int64(0); p < e.P; p++ {
			if e.podGang[p] == g && !seen[p%2] {
				seen[p%2] = true
				head = append(head, [6]int64{1, p, vtB(r.Intn(5) == 0), 0, 0, 0})
			}
		}
	}
	hd := &vtC04Hdr{G: e.G, P: e.P, podGang: e.podGang, podKind: e.podKind, acfg: e.acfg}
	return "burst+" + label, hd.encode(append(head, ops...))
}

func TestVerifC04Race(t *testing.T) { vtMain(t, "C04", vtC04RaceGen, vtC04RaceExec) }
