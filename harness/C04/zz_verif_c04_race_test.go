//go:build verif

package core

import (
	"math/rand"
	"runtime"
	"sync"
	"sync/atomic"
	"testing"
)

// Stream "race": the informer events of a generated history run on one goroutine, the
// scheduling-cycle calls (Permit / Unreserve / PostBind / AfterPostFilter) on another, a third
// goroutine keeps taking GetGangSummaries() snapshots (each gang summary is taken under the gang's
// lock). Observable: one integer
//   0  every snapshot had pending/waiting/bound pairwise disjoint and pending within children, and
//      after both goroutines finished every child was in exactly one of the three sets
//   1  a snapshot violated the weak partition      2  the final state violated the partition
//   3  a goroutine panicked
// The histories are made protocol conformant first (the hypothesis of c04_partition): no Permit for
// a pod after its PostBind, and informer events carry a node name only for pods that are never
// permitted.

func vtC04RaceSanitize(ops [][6]int64) (events, cycle [][6]int64) {
	permitted := map[int64]bool{}
	for _, o := range ops {
		if o[0] == 7 {
			permitted[o[1]] = true
		}
	}
	bound := map[int64]bool{}
	for _, o := range ops {
		switch o[0] {
		case 1, 2:
			if o[2] != 0 && permitted[o[1]] {
				o[2] = 0
			}
			events = append(events, o)
		case 3, 4, 5, 6:
			events = append(events, o)
		case 7:
			if !bound[o[1]] {
				cycle = append(cycle, o)
			}
		case 9:
			bound[o[1]] = true
			cycle = append(cycle, o)
		case 8, 10:
			cycle = append(cycle, o)
		}
	}
	return
}

// weak partition of one projected gang (12 integers, see observe): masks at 8..11
func vtC04WeakOK(v []int64) bool {
	if v[0] == 0 {
		return true
	}
	c, p, w, b := v[8], v[9], v[10], v[11]
	return p&^c == 0 && p&w == 0 && p&b == 0 && w&b == 0
}

func vtC04FullOK(v []int64) bool {
	if v[0] == 0 {
		return true
	}
	c, p, w, b := v[8], v[9], v[10], v[11]
	return vtC04WeakOK(v) && c&^(p|w|b) == 0
}

func vtC04RaceOnce(in []int64) int64 {
	e, ops := vtC04NewEnv(in)
	events, cycle := vtC04RaceSanitize(ops)
	var bad int64
	var wg sync.WaitGroup
	start := make(chan struct{})
	done := make(chan struct{})
	runThread := func(seq [][6]int64) {
		defer wg.Done()
		defer func() {
			if r := recover(); r != nil {
				atomic.StoreInt64(&bad, 3)
			}
		}()
		<-start
		for _, o := range seq {
			e.apply(o)
			runtime.Gosched()
		}
	}
	wg.Add(2)
	go runThread(events)
	go runThread(cycle)
	var swg sync.WaitGroup
	swg.Add(1)
	go func() {
		defer swg.Done()
		defer func() {
			if r := recover(); r != nil {
				atomic.StoreInt64(&bad, 3)
			}
		}()
		<-start
		buf := make([]int64, 0, 12*int(e.G))
		for {
			select {
			case <-done:
				return
			default:
			}
			buf = e.observe(buf[:0])
			for g := 0; g < int(e.G); g++ {
				if !vtC04WeakOK(buf[12*g : 12*g+12]) {
					atomic.CompareAndSwapInt64(&bad, 0, 1)
				}
			}
			runtime.Gosched()
		}
	}()
	close(start)
	wg.Wait()
	close(done)
	swg.Wait()
	if b := atomic.LoadInt64(&bad); b != 0 {
		return b
	}
	fin := e.observe(nil)
	for g := 0; g < int(e.G); g++ {
		if !vtC04FullOK(fin[12*g : 12*g+12]) {
			return 2
		}
	}
	return 0
}

func vtC04RaceExec(in []int64) []int64 {
	for rep := 0; rep < 12; rep++ {
		if c := vtC04RaceOnce(in); c != 0 {
			return []int64{c}
		}
	}
	return []int64{0}
}

func vtC04RaceGen(r *rand.Rand, i int) (string, []int64) { return vtC04Gen(r, i) }

func TestVerifC04Race(t *testing.T) { vtMain(t, "C04", vtC04RaceGen, vtC04RaceExec) }
