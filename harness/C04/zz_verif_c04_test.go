//go:build verif

package core

import (
	"context"
	"fmt"
	"io"
	"sort"
	"strconv"
	"strings"
	"testing"
	"time"

	"github.com/go-logr/logr"
	corev1 "k8s.io/api/core/v1"
	metav1 "k8s.io/apimachinery/pkg/apis/meta/v1"
	"k8s.io/apimachinery/pkg/types"
	"k8s.io/apimachinery/pkg/util/sets"
	"k8s.io/klog/v2"
	fwktype "k8s.io/kube-scheduler/framework"
	"k8s.io/kubernetes/pkg/scheduler/framework"

	"github.com/koordinator-sh/koordinator/apis/extension"
	"github.com/koordinator-sh/koordinator/apis/thirdparty/scheduler-plugins/pkg/apis/scheduling/v1alpha1"
	"github.com/koordinator-sh/koordinator/pkg/scheduler/apis/config"
	"github.com/koordinator-sh/koordinator/pkg/scheduler/frameworkext"
)

// ---------------------------------------------------------------------------------------
// C04 — gang scheduling is all-or-nothing across the gang group.
//
// input wire format (coq/C04/Extract.v decodes the same):
//   G P
//   P records  (gang kind)            gang in 1..G (anything else: a pod without gang), kind 0 = gang declared by
//                                     pod annotations, 1 = pod carries the PodGroup label (gang declared by a PodGroup)
//   G records  (min mode policy mask) the gang declaration carried by the annotation-kind pods of gang 1..G
//   N
//   N records  (code a b c d e)       operations, see vtC04Exec
// observable: per operation
//   res allowedMask rejectedMask fwWaitingMask   then for gang 1..G 12 integers
//   exists init strict policy min groupMask fromCrd onceSatisfied childrenMask pendingMask waitingMask boundMask
//   then recKeys recSat (gangCache.gangGroupInfoMap: bit m = a record whose group id has gang mask m exists / is
//   once-satisfied), then for gang 1..G: recKeyMask recInitialized (the GangGroupInfo object the gang points to)
// ---------------------------------------------------------------------------------------

const vtC04NS = "ns"

func init() {
	// the gang cache logs every transition at Info level; keep the harness quiet and fast
	klog.LogToStderr(false)
	klog.SetOutput(io.Discard)
}

func vtC04GangID(g int64) string { return fmt.Sprintf("%s/g%02d", vtC04NS, g) }

// fake framework handle: the waiting-pod map of the scheduling framework.
type vtC04Handle struct {
	frameworkext.ExtendedHandle
	waiting  map[int]*vtC04WP
	allowed  int64
	rejected int64
	sched    *vtC04Sched
}

type vtC04Sched struct {
	frameworkext.Scheduler
	q *vtC04Queue
}

type vtC04Queue struct {
	frameworkext.SchedulingQueue
}

func (q *vtC04Queue) Activate(logger logr.Logger, pods map[string]*corev1.Pod) {}
func (s *vtC04Sched) GetSchedulingQueue() frameworkext.SchedulingQueue       { return s.q }
func (h *vtC04Handle) Scheduler() frameworkext.Scheduler                      { return h.sched }

type vtC04WP struct {
	h   *vtC04Handle
	idx int
	pod *corev1.Pod
}

func (w *vtC04WP) GetPod() *corev1.Pod        { return w.pod }
func (w *vtC04WP) GetPendingPlugins() []string { return []string{Name} }
func (w *vtC04WP) Allow(pluginName string) {
	if _, ok := w.h.waiting[w.idx]; ok {
		delete(w.h.waiting, w.idx)
		w.h.allowed |= 1 << uint(w.idx)
	}
}
func (w *vtC04WP) Reject(pluginName, msg string) {
	if _, ok := w.h.waiting[w.idx]; ok {
		delete(w.h.waiting, w.idx)
		w.h.rejected |= 1 << uint(w.idx)
	}
}

func (h *vtC04Handle) IterateOverWaitingPods(cb func(fwktype.WaitingPod)) {
	keys := make([]int, 0, len(h.waiting))
	for k := range h.waiting {
		keys = append(keys, k)
	}
	sort.Ints(keys)
	for _, k := range keys {
		if w, ok := h.waiting[k]; ok {
			cb(w)
		}
	}
}

type vtC04Cfg struct{ min, mode, policy, mask int64 }

func vtC04Annotations(g int64, c vtC04Cfg, ngangs int64, withNameAndMin bool) map[string]string {
	a := map[string]string{}
	if withNameAndMin {
		a[extension.AnnotationGangName] = fmt.Sprintf("g%02d", g)
		a[extension.AnnotationGangMinNum] = strconv.FormatInt(c.min, 10)
	}
	switch c.mode {
	case 0:
		a[extension.AnnotationGangMode] = extension.GangModeStrict
	case 1:
		a[extension.AnnotationGangMode] = extension.GangModeNonStrict
	case 2: // unset
	default:
		a[extension.AnnotationGangMode] = "bogus"
	}
	switch c.policy {
	case 0:
		a[extension.AnnotationGangMatchPolicy] = extension.GangMatchPolicyOnlyWaiting
	case 1:
		a[extension.AnnotationGangMatchPolicy] = extension.GangMatchPolicyWaitingAndRunning
	case 2:
		a[extension.AnnotationGangMatchPolicy] = extension.GangMatchPolicyOnceSatisfied
	case 3: // unset
	default:
		a[extension.AnnotationGangMatchPolicy] = "bogus"
	}
	var ids []string
	for j := int64(1); j <= ngangs; j++ {
		if c.mask&(1<<uint(j-1)) != 0 {
			ids = append(ids, strconv.Quote(vtC04GangID(j)))
		}
	}
	if len(ids) > 0 {
		a[extension.AnnotationGangGroups] = "[" + strings.Join(ids, ",") + "]"
	}
	return a
}

// vtC04Env is one instance of the code under test: a gang cache, a PodGroupManager on top of it
// and the fake framework handle.
type vtC04Env struct {
	G, P    int64
	podGang []int64
	podKind []int64
	acfg    []vtC04Cfg
	h       *vtC04Handle
	cache   *GangCache
	mgr     *PodGroupManager
	ctx     context.Context
	lastPG  map[int64]*v1alpha1.PodGroup // the PodGroup object last delivered per gang (old object of the next update)
}

// vtC04NewEnv decodes the static part of a case and returns the operations.
func vtC04NewEnv(in []int64) (*vtC04Env, [][6]int64) {
	pos := 0
	next := func() int64 { v := in[pos]; pos++; return v }
	e := &vtC04Env{}
	e.G, e.P = next(), next()
	e.podGang = make([]int64, e.P)
	e.podKind = make([]int64, e.P)
	for i := int64(0); i < e.P; i++ {
		e.podGang[i], e.podKind[i] = next(), next()
	}
	e.acfg = make([]vtC04Cfg, e.G+1)
	for g := int64(1); g <= e.G; g++ {
		e.acfg[g] = vtC04Cfg{next(), next(), next(), next()}
	}
	N := next()
	ops := make([][6]int64, N)
	for i := range ops {
		for j := 0; j < 6; j++ {
			ops[i][j] = next()
		}
	}
	args := &config.CoschedulingArgs{
		DefaultTimeout:     metav1.Duration{Duration: 300 * time.Second},
		DefaultMatchPolicy: extension.GangMatchPolicyOnceSatisfied,
	}
	e.h = &vtC04Handle{waiting: map[int]*vtC04WP{}, sched: &vtC04Sched{q: &vtC04Queue{}}}
	e.cache = NewGangCache(args, nil, nil, nil, e.h)
	e.mgr = &PodGroupManager{handle: e.h, args: args, cache: e.cache}
	e.ctx = context.TODO()
	e.lastPG = map[int64]*v1alpha1.PodGroup{}
	return e, ops
}

func (e *vtC04Env) hasGang(p int64) bool {
	return p >= 0 && p < e.P && e.podGang[p] >= 1 && e.podGang[p] <= e.G
}

func (e *vtC04Env) mkPod(p int64, node bool, terminated bool) *corev1.Pod {
	pod := &corev1.Pod{ObjectMeta: metav1.ObjectMeta{
		Namespace: vtC04NS, Name: fmt.Sprintf("p%02d", p), UID: types.UID(fmt.Sprintf("p%02d", p)),
		Labels: map[string]string{}, Annotations: map[string]string{}}}
	if e.hasGang(p) {
		g := e.podGang[p]
		if e.podKind[p] == 1 {
			pod.Labels[v1alpha1.PodGroupLabel] = fmt.Sprintf("g%02d", g)
		} else {
			pod.Annotations = vtC04Annotations(g, e.acfg[g], e.G, true)
		}
	}
	if node {
		pod.Spec.NodeName = "n1"
	}
	if terminated {
		pod.Status.Phase = corev1.PodFailed
	}
	return pod
}

func (e *vtC04Env) mkPG(g int64, c vtC04Cfg) *v1alpha1.PodGroup {
	return &v1alpha1.PodGroup{
		ObjectMeta: metav1.ObjectMeta{Namespace: vtC04NS, Name: fmt.Sprintf("g%02d", g),
			Annotations: vtC04Annotations(g, c, e.G, false)},
		Spec: v1alpha1.PodGroupSpec{MinMember: int32(c.min)},
	}
}

// prepare builds the objects of an informer add / update event and returns the call that delivers it
// (nil for the other operations): the stream "race" lets several goroutines deliver the first events of
// a gang at the same instant.
func (e *vtC04Env) prepare(op [6]int64) func() {
	code, a, b, c, d, f := op[0], op[1], op[2], op[3], op[4], op[5]
	cache := e.cache
	validPod := a >= 0 && a < e.P
	validGang := a >= 1 && a <= e.G
	switch code {
	case 1:
		if validPod {
			pod := e.mkPod(a, b != 0, false)
			return func() { cache.onPodAdd(pod) }
		}
	case 2:
		if validPod {
			old, pod := e.mkPod(a, false, false), e.mkPod(a, b != 0, c != 0)
			return func() { cache.onPodUpdate(old, pod) }
		}
	case 4:
		if validGang {
			pg := e.mkPG(a, vtC04Cfg{b, c, d, f})
			return func() { cache.onPodGroupAdd(pg); e.lastPG[a] = pg } // lastPG: PodGroup events all run on one goroutine
		}
	}
	return nil
}

// apply drives one operation through the real entry points and returns the Permit result code.
func (e *vtC04Env) apply(op [6]int64) int64 {
	code, a, b, c, d, f := op[0], op[1], op[2], op[3], op[4], op[5]
	h, cache, mgr, ctx := e.h, e.cache, e.mgr, e.ctx
	res := int64(0)
	validPod := a >= 0 && a < e.P
	validGang := a >= 1 && a <= e.G
	switch code {
	case 1: // pod add event
		if validPod {
			cache.onPodAdd(e.mkPod(a, b != 0, false))
		}
	case 2: // pod update event
		if validPod {
			cache.onPodUpdate(e.mkPod(a, false, false), e.mkPod(a, b != 0, c != 0))
		}
	case 3: // pod delete event
		if validPod {
			cache.onPodDelete(e.mkPod(a, b != 0, false))
		}
	case 4: // PodGroup add event
		if validGang {
			pg := e.mkPG(a, vtC04Cfg{b, c, d, f})
			cache.onPodGroupAdd(pg)
			e.lastPG[a] = pg
		}
	case 5: // PodGroup update event
		if validGang {
			pg := e.mkPG(a, vtC04Cfg{b, c, d, f})
			old := e.lastPG[a]
			if old == nil { // the informer always has an old object: an earlier version without declaration
				old = &v1alpha1.PodGroup{ObjectMeta: metav1.ObjectMeta{Namespace: vtC04NS, Name: pg.Name}}
			}
			cache.onPodGroupUpdate(old, pg)
			e.lastPG[a] = pg
		}
	case 6: // PodGroup delete event
		if validGang {
			cache.onPodGroupDelete(e.mkPG(a, vtC04Cfg{}))
			delete(e.lastPG, a)
		}
	case 7: // Permit, as Coscheduling.Permit (coscheduling.go) drives it; the framework parks a pod told to wait
		if validPod {
			pod := e.mkPod(a, false, false)
			_, st := mgr.Permit(ctx, pod)
			switch st {
			case Success:
				res = 0
				mgr.AllowGangGroup(pod, h, Name)
				mgr.SucceedGangScheduling()
			case Wait:
				res = 1
				h.waiting[int(a)] = &vtC04WP{h: h, idx: int(a), pod: pod}
			case PodGroupNotFound:
				res = 2
			case PodGroupNotSpecified:
				res = 3
			default:
				res = 9
			}
		}
	case 8: // Unreserve (timeout, rejection or failed bind: the framework has taken the pod out of its waiting map)
		if validPod {
			delete(h.waiting, int(a))
			mgr.Unreserve(ctx, framework.NewCycleState(), e.mkPod(a, false, false), "n1", h, Name)
		}
	case 9: // PostBind
		if validPod {
			mgr.PostBind(ctx, e.mkPod(a, false, false), "n1")
		}
	case 10: // AfterPostFilter (the pod of this scheduling cycle found no node)
		if validPod {
			mgr.AfterPostFilter(ctx, framework.NewCycleState(), e.mkPod(a, false, false), h, Name, nil, nil)
		}
	}
	return res
}

func vtC04SetMask(m sets.Set[string]) int64 {
	var r int64
	for k := range m {
		// key "ns/pNN"
		i, err := strconv.Atoi(k[len(vtC04NS)+2:])
		if err != nil {
			panic("bad pod key " + k)
		}
		r |= 1 << uint(i)
	}
	return r
}

// observe projects GetGangSummaries() for gang 1..G (12 integers each).
func (e *vtC04Env) observe(obs []int64) []int64 {
	sums := e.mgr.GetGangSummaries()
	for g := int64(1); g <= e.G; g++ {
		s, ok := sums[vtC04GangID(g)]
		if !ok {
			obs = append(obs, 0, 0, 0, 0, 0, 0, 0, 0, 0, 0, 0, 0)
			continue
		}
		var policy int64
		switch s.GangMatchPolicy {
		case extension.GangMatchPolicyOnlyWaiting:
			policy = 0
		case extension.GangMatchPolicyWaitingAndRunning:
			policy = 1
		case extension.GangMatchPolicyOnceSatisfied:
			policy = 2
		default:
			policy = 9
		}
		var gm int64
		for _, id := range s.GangGroup {
			found := false
			for j := int64(1); j <= e.G; j++ {
				if id == vtC04GangID(j) {
					gm |= 1 << uint(j-1)
					found = true
				}
			}
			if !found {
				gm |= 1 << 20
			}
		}
		obs = append(obs, 1, vtB(s.HasGangInit), vtB(s.Mode == extension.GangModeStrict), policy,
			int64(s.MinRequiredNumber), gm, vtB(s.GangFrom == GangFromPodGroupCrd), vtB(s.OnceResourceSatisfied),
			vtC04SetMask(s.Children), vtC04SetMask(s.PendingChildren), vtC04SetMask(s.WaitingForBindChildren),
			vtC04SetMask(s.BoundChildren))
	}
	return obs
}

// groupKeyMask maps a gang group id ("ns/g01,ns/g03") to the mask of its gangs (bit 20: an id that is no gang of the case).
func (e *vtC04Env) groupKeyMask(id string) int64 {
	var m int64
	if id == "" {
		return 0
	}
	for _, part := range strings.Split(id, ",") {
		found := false
		for j := int64(1); j <= e.G; j++ {
			if part == vtC04GangID(j) {
				m |= 1 << uint(j-1)
				found = true
			}
		}
		if !found {
			m |= 1 << 20
		}
	}
	return m
}

// observeRecs projects the cache's gang-group records: recKeys recSat, then per gang (recKeyMask recInitialized).
func (e *vtC04Env) observeRecs(obs []int64) []int64 {
	var keys, sat int64
	e.cache.lock.RLock()
	infos := make(map[string]*GangGroupInfo, len(e.cache.gangGroupInfoMap))
	for k, v := range e.cache.gangGroupInfoMap {
		infos[k] = v
	}
	e.cache.lock.RUnlock()
	for k, v := range infos {
		m := e.groupKeyMask(k)
		if m < 0 || m > 61 {
			m = 61
		}
		keys |= 1 << uint(m)
		if v != nil && v.isGangOnceResourceSatisfied() {
			sat |= 1 << uint(m)
		}
	}
	obs = append(obs, keys, sat)
	sums := e.mgr.GetGangSummaries()
	for g := int64(1); g <= e.G; g++ {
		s, ok := sums[vtC04GangID(g)]
		if !ok || s.GangGroupInfo == nil {
			obs = append(obs, 0, 0)
			continue
		}
		obs = append(obs, e.groupKeyMask(s.GangGroupInfo.GangGroupId), vtB(s.GangGroupInfo.IsInitialized()))
	}
	return obs
}

func vtC04Exec(in []int64) []int64 {
	e, ops := vtC04NewEnv(in)
	obs := make([]int64, 0, len(ops)*(6+14*int(e.G)))
	for _, op := range ops {
		e.h.allowed, e.h.rejected = 0, 0
		res := e.apply(op)
		var fw int64
		for k := range e.h.waiting {
			fw |= 1 << uint(k)
		}
		obs = append(obs, res, e.h.allowed, e.h.rejected, fw)
		obs = e.observe(obs)
		obs = e.observeRecs(obs)
	}
	return obs
}

func TestVerifC04(t *testing.T) { vtMain(t, "C04", vtC04Gen, vtC04Exec) }
