//go:build verif

package core

import (
	"math/rand"
)

// Generator of C04 histories. It is feedback directed: after every appended operation the prefix
// is run through the implementation (vtC04Exec) and the last observation (framework waiting map,
// allow/reject calls, gang sets) steers the choice of the next operation towards the protocol a
// scheduler follows (add pods, permit pending ones, bind released ones, unreserve rejected ones),
// with stale / duplicated / out-of-order informer events and arbitrary operations mixed in.

type vtC04Hdr struct {
	G, P    int64
	podGang []int64
	podKind []int64
	acfg    []vtC04Cfg // index 1..G
}

func (h *vtC04Hdr) encode(ops [][6]int64) []int64 {
	in := []int64{h.G, h.P}
	for i := int64(0); i < h.P; i++ {
		in = append(in, h.podGang[i], h.podKind[i])
	}
	for g := int64(1); g <= h.G; g++ {
		c := h.acfg[g]
		in = append(in, c.min, c.mode, c.policy, c.mask)
	}
	in = append(in, int64(len(ops)))
	for _, o := range ops {
		in = append(in, o[:]...)
	}
	return in
}

func vtC04Bits(m int64) []int64 {
	var r []int64
	for i := int64(0); i < 62; i++ {
		if m&(1<<uint(i)) != 0 {
			r = append(r, i)
		}
	}
	return r
}

func vtC04Pick(r *rand.Rand, xs []int64) int64 { return xs[r.Intn(len(xs))] }

func vtC04GenCfg(r *rand.Rand, G int64, npods int64, groupMask int64) vtC04Cfg {
	c := vtC04Cfg{}
	switch r.Intn(10) {
	case 0:
		c.min = 0
	case 1:
		c.min = npods + 1
	case 2:
		c.min = int64(r.Intn(5))
	default:
		if npods > 0 {
			c.min = 1 + int64(r.Intn(int(npods)))
		} else {
			c.min = 1
		}
	}
	switch x := r.Intn(20); {
	case x < 13:
		c.mode = 0
	case x < 18:
		c.mode = 1
	case x < 19:
		c.mode = 2
	default:
		c.mode = 3
	}
	switch x := r.Intn(20); {
	case x < 6:
		c.policy = 0
	case x < 12:
		c.policy = 1
	case x < 17:
		c.policy = 2
	case x < 19:
		c.policy = 3
	default:
		c.policy = 4
	}
	c.mask = groupMask
	if r.Intn(12) == 0 {
		c.mask = int64(r.Intn(1 << uint(G))) // inconsistent declaration
	}
	return c
}

func vtC04Gen(r *rand.Rand, i int) (string, []int64) {
	style := []string{"protocol", "protocol", "protocol", "racy", "racy", "chaos", "resubmit", "resubmit"}[r.Intn(8)]
	G := int64(1 + r.Intn(3))
	if style == "resubmit" { // life cycle of a gang group: run, re-declare, tear down, submit again under the same names
		G = int64(2 + r.Intn(2))
	}
	h := &vtC04Hdr{G: G, acfg: make([]vtC04Cfg, G+1)}
	// the gang group: a random subset of >= 2 gangs shares one group, the rest are singletons
	var groupMask int64
	if G >= 2 && r.Intn(4) != 0 {
		for groupMask&(groupMask-1) == 0 { // fewer than two bits
			groupMask = int64(r.Intn(1 << uint(G)))
		}
	}
	perGang := make([]int64, G+1)
	for g := int64(1); g <= G; g++ {
		n := int64(1 + r.Intn(4))
		if G == 3 && n > 3 {
			n = 3
		}
		perGang[g] = n
		kind := int64(r.Intn(2))
		for k := int64(0); k < n; k++ {
			kk := kind
			if r.Intn(10) == 0 {
				kk = 1 - kk
			}
			h.podGang = append(h.podGang, g)
			h.podKind = append(h.podKind, kk)
		}
	}
	if r.Intn(6) == 0 { // a pod that belongs to no gang
		h.podGang = append(h.podGang, 0)
		h.podKind = append(h.podKind, 0)
	}
	// shuffle pod ids so that gang membership is not contiguous
	r.Shuffle(len(h.podGang), func(a, b int) {
		h.podGang[a], h.podGang[b] = h.podGang[b], h.podGang[a]
		h.podKind[a], h.podKind[b] = h.podKind[b], h.podKind[a]
	})
	h.P = int64(len(h.podGang))
	gm := func(g int64) int64 {
		if groupMask&(1<<uint(g-1)) != 0 {
			return groupMask
		}
		if r.Intn(2) == 0 {
			return 0
		}
		return 1 << uint(g-1)
	}
	pgcfg := make([]vtC04Cfg, G+1)
	for g := int64(1); g <= G; g++ {
		h.acfg[g] = vtC04GenCfg(r, G, perGang[g], gm(g))
		pgcfg[g] = vtC04GenCfg(r, G, perGang[g], gm(g))
		if r.Intn(3) != 0 { // mostly the PodGroup says the same as the annotations would
			pgcfg[g] = h.acfg[g]
		}
	}

	maxN := 18
	if style == "chaos" {
		maxN = 14
	}
	N := 4 + r.Intn(maxN-3)
	if style == "resubmit" {
		N = 14 + r.Intn(19)
	}
	// resubmit: ops [0,t1) build and run the gangs, [t1,t2) tear everything down, [t2,N) submit again
	t1, t2 := N*9/20, N*9/20+N/4
	var ops [][6]int64
	released := map[int64]bool{} // allowed by the plugin, binding not finished yet
	rejected := map[int64]bool{} // rejected by the plugin, Unreserve not run yet
	stride := int(6 + 14*G)
	// last observation
	var fw int64
	gangs := make([][]int64, G+1)
	for g := range gangs {
		gangs[g] = make([]int64, 12)
	}
	allPods := make([]int64, h.P)
	for p := range allPods {
		allPods[p] = int64(p)
	}
	keys := func(m map[int64]bool) []int64 {
		var r []int64
		for p := int64(0); p < h.P; p++ {
			if m[p] {
				r = append(r, p)
			}
		}
		return r
	}
	for len(ops) < N {
		var notAdded, pending, pgMissing []int64
		for p := int64(0); p < h.P; p++ {
			g := h.podGang[p]
			if g < 1 {
				continue
			}
			bit := int64(1) << uint(p)
			if gangs[g][0] == 0 || gangs[g][8]&bit == 0 {
				notAdded = append(notAdded, p)
			}
			if gangs[g][0] == 1 && gangs[g][9]&bit != 0 {
				pending = append(pending, p)
			}
			if h.podKind[p] == 1 && (gangs[g][0] == 0 || gangs[g][1] == 0) {
				pgMissing = append(pgMissing, g)
			}
		}
		type cand struct {
			w  int
			op [6]int64
		}
		var cs []cand
		add := func(w int, code, a, b, c, d, e int64) { cs = append(cs, cand{w, [6]int64{code, a, b, c, d, e}}) }
		pgop := func(w int, code, g int64, c vtC04Cfg) { add(w, code, g, c.min, c.mode, c.policy, c.mask) }
		if len(notAdded) > 0 {
			p := vtC04Pick(r, notAdded)
			add(40, 1, p, 0, 0, 0, 0)
			add(3, 1, p, 1, 0, 0, 0) // restored bound pod
		}
		if len(pgMissing) > 0 {
			g := vtC04Pick(r, pgMissing)
			pgop(30, 4, g, pgcfg[g])
		}
		if len(pending) > 0 {
			add(45, 7, vtC04Pick(r, pending), 0, 0, 0, 0)
			add(5, 10, vtC04Pick(r, pending), 0, 0, 0, 0)
		}
		if ks := keys(released); len(ks) > 0 {
			add(45, 9, vtC04Pick(r, ks), 0, 0, 0, 0)
			add(4, 8, vtC04Pick(r, ks), 0, 0, 0, 0)        // bind failed
			add(6, 2, vtC04Pick(r, ks), 1, 0, 0, 0)        // informer sees the binding first
			add(4, 2, vtC04Pick(r, ks), 0, 0, 0, 0)        // stale update without node name
		}
		if ks := keys(rejected); len(ks) > 0 {
			add(50, 8, vtC04Pick(r, ks), 0, 0, 0, 0)
		}
		if fws := vtC04Bits(fw); len(fws) > 0 {
			add(5, 8, vtC04Pick(r, fws), 0, 0, 0, 0) // permit timeout
			add(3, 3, vtC04Pick(r, fws), 0, 0, 0, 0) // deleted while waiting
		}
		if style == "resubmit" {
			anyBound := false
			for g := int64(1); g <= G; g++ {
				if gangs[g][0] == 1 && gangs[g][11] != 0 {
					anyBound = true
				}
			}
			if len(ops) < t1 && anyBound { // re-declare the group of a gang that is already running
				g := int64(1 + r.Intn(int(G)))
				c := pgcfg[g]
				c.mask = int64(r.Intn(1 << uint(G)))
				pgop(14, 5, g, c)
			}
			if len(ops) >= t1 && len(ops) < t2 {
				for g := int64(1); g <= G; g++ {
					if gangs[g][0] == 0 {
						continue
					}
					if ch := vtC04Bits(gangs[g][8]); len(ch) > 0 {
						add(60, 3, vtC04Pick(r, ch), 0, 0, 0, 0)
					}
					add(30, 6, g, 0, 0, 0, 0)
				}
			}
		}
		racy := 1
		if style == "racy" {
			racy = 4
		}
		if style == "chaos" {
			racy = 12
		}
		p := vtC04Pick(r, allPods)
		add(2*racy, 2, p, int64(r.Intn(2)), vtB(r.Intn(8) == 0), 0, 0)
		add(2*racy, 3, p, 0, 0, 0, 0)
		add(1*racy, 1, p, vtB(r.Intn(4) == 0), 0, 0, 0)
		add(1*racy, 7, p, 0, 0, 0, 0)
		add(1*racy, 8, p, 0, 0, 0, 0)
		add(1*racy, 9, p, 0, 0, 0, 0)
		add(1*racy, 10, p, 0, 0, 0, 0)
		g := int64(1 + r.Intn(int(G)))
		pgop(1*racy, 4, g, pgcfg[g])
		pgop(2*racy, 5, g, vtC04GenCfg(r, G, perGang[g], gm(g)))
		pgop(1*racy, 5, g, pgcfg[g])
		{ // metadata-only PodGroup update: same spec.minMember, other group / mode / match policy annotations
			c := pgcfg[g]
			switch r.Intn(3) {
			case 0:
				c.mask = groupMask
				if c.mask == pgcfg[g].mask {
					c.mask = int64(r.Intn(1 << uint(G)))
				}
			case 1:
				c.mode = 1 - (c.mode & 1)
			default:
				c.policy = int64(r.Intn(3))
			}
			pgop(1+2*racy, 5, g, c)
		}
		add(1*racy, 6, g, 0, 0, 0, 0)
		if r.Intn(60) == 0 { // malformed: ids out of range, unknown op code
			add(3*racy, int64(r.Intn(12)), int64(r.Intn(14))-1, 0, 0, 0, 0)
		}
		tot := 0
		for _, c := range cs {
			tot += c.w
		}
		x := r.Intn(tot)
		var chosen [6]int64
		for _, c := range cs {
			if x < c.w {
				chosen = c.op
				break
			}
			x -= c.w
		}
		ops = append(ops, chosen)
		obs := vtSafe(vtC04Exec, h.encode(ops))
		if len(obs) != stride*len(ops) {
			break // the implementation crashed on this prefix: keep it as the case
		}
		last := obs[stride*(len(ops)-1):]
		fw = last[3]
		for g := int64(1); g <= G; g++ {
			copy(gangs[g], last[4+12*(g-1):4+12*g])
		}
		a := chosen[1]
		switch chosen[0] {
		case 7:
			if last[0] == 0 {
				released[a] = true
			}
		case 8, 9:
			delete(released, a)
			delete(rejected, a)
		}
		for _, q := range vtC04Bits(last[1]) {
			released[q] = true
		}
		for _, q := range vtC04Bits(last[2]) {
			rejected[q] = true
		}
	}
	return style, h.encode(ops)
}
